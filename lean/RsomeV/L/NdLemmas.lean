import RsomeV.M.NdArray
import Batteries.Data.List.Perm

/-! Helper lemmas for `RsomeV/Props/C05.lean` (NumPy index arithmetic). -/

namespace RsomeV.Nd
open List

/-! ### size / ravel / unravel -/

@[simp] theorem size_nil : size [] = 1 := rfl
@[simp] theorem size_cons (d : Nat) (ds : List Nat) : size (d :: ds) = d * size ds := rfl
@[simp] theorem ravel_cons (d : Nat) (ds : List Nat) (i : Nat) (is : List Nat) :
    ravel (d :: ds) (i :: is) = i * size ds + ravel ds is := rfl
@[simp] theorem ravel_nil_left (is : List Nat) : ravel [] is = 0 := by simp [ravel]
@[simp] theorem ravel_nil_right (ds : List Nat) : ravel ds [] = 0 := by cases ds <;> simp [ravel]
@[simp] theorem unravel_nil (k : Nat) : unravel [] k = [] := rfl
@[simp] theorem unravel_cons (d : Nat) (ds : List Nat) (k : Nat) :
    unravel (d :: ds) k = k / size ds :: unravel ds (k % size ds) := rfl

@[simp] theorem length_unravel (shape : List Nat) (k : Nat) : (unravel shape k).length = shape.length := by
  induction shape generalizing k with
  | nil => rfl
  | cons d ds ih => simp [ih]

@[simp] theorem validIdx_nil : ValidIdx [] [] := trivial
@[simp] theorem validIdx_cons {d i : Nat} {ds is : List Nat} :
    ValidIdx (d :: ds) (i :: is) ↔ i < d ∧ ValidIdx ds is := Iff.rfl
@[simp] theorem validIdx_nil_cons {i : Nat} {is : List Nat} : ¬ ValidIdx [] (i :: is) := fun h => h
@[simp] theorem validIdx_cons_nil {d : Nat} {ds : List Nat} : ¬ ValidIdx (d :: ds) [] := fun h => h

theorem ValidIdx.length_eq {shape idx : List Nat} (h : ValidIdx shape idx) : idx.length = shape.length := by
  induction shape generalizing idx with
  | nil => cases idx <;> simp_all
  | cons d ds ih =>
    cases idx with
    | nil => simp_all
    | cons i is => simp only [validIdx_cons] at h; simp [ih h.2]

/-- the index-wise reading of `ValidIdx` -/
theorem validIdx_iff {shape idx : List Nat} :
    ValidIdx shape idx ↔ idx.length = shape.length ∧ ∀ j, j < shape.length → idx.getD j 0 < shape.getD j 0 := by
  induction shape generalizing idx with
  | nil => cases idx <;> simp
  | cons d ds ih =>
    cases idx with
    | nil => simp
    | cons i is =>
      simp only [validIdx_cons, ih, length_cons, Nat.add_right_cancel_iff]
      constructor
      · rintro ⟨h0, hl, h⟩
        refine ⟨hl, fun j hj => ?_⟩
        cases j with
        | zero => simpa using h0
        | succ j => simpa using h j (by omega)
      · rintro ⟨hl, h⟩
        refine ⟨by simpa using h 0 (by omega), hl, fun j hj => ?_⟩
        simpa using h (j + 1) (by omega)

theorem size_pos_of_lt {shape : List Nat} {k : Nat} (h : k < size shape) : 0 < size shape := by omega

theorem ravel_lt {shape idx : List Nat} (h : ValidIdx shape idx) : ravel shape idx < size shape := by
  induction shape generalizing idx with
  | nil => cases idx <;> simp_all
  | cons d ds ih =>
    cases idx with
    | nil => simp_all
    | cons i is =>
      simp only [validIdx_cons] at h
      have h2 := ih h.2
      simp only [ravel_cons, size_cons]
      calc i * size ds + ravel ds is < i * size ds + size ds := by omega
        _ = (i + 1) * size ds := by rw [Nat.add_mul, Nat.one_mul]
        _ ≤ d * size ds := Nat.mul_le_mul_right _ h.1

theorem ravel_unravel {shape : List Nat} {k : Nat} (h : k < size shape) :
    ravel shape (unravel shape k) = k := by
  induction shape generalizing k with
  | nil => simp at h; simp [h]
  | cons d ds ih =>
    have hpos : 0 < size ds := by
      rcases Nat.eq_zero_or_pos (size ds) with h0 | h0
      · simp [h0] at h
      · exact h0
    simp only [unravel_cons, ravel_cons, ih (Nat.mod_lt _ hpos)]
    rw [Nat.mul_comm]; exact Nat.div_add_mod k (size ds)

theorem unravel_ravel {shape idx : List Nat} (h : ValidIdx shape idx) :
    unravel shape (ravel shape idx) = idx := by
  induction shape generalizing idx with
  | nil => cases idx <;> simp_all
  | cons d ds ih =>
    cases idx with
    | nil => simp_all
    | cons i is =>
      simp only [validIdx_cons] at h
      have hlt := ravel_lt h.2
      have hpos : 0 < size ds := by omega
      simp only [ravel_cons, unravel_cons]
      have e1 : (i * size ds + ravel ds is) / size ds = i := by
        rw [Nat.add_comm, Nat.add_mul_div_right _ _ hpos, Nat.div_eq_of_lt hlt, Nat.zero_add]
      have e2 : (i * size ds + ravel ds is) % size ds = ravel ds is := by
        rw [Nat.add_comm, Nat.add_mul_mod_self_right, Nat.mod_eq_of_lt hlt]
      rw [e1, e2, ih h.2]

theorem validIdx_unravel {shape : List Nat} {k : Nat} (h : k < size shape) :
    ValidIdx shape (unravel shape k) := by
  induction shape generalizing k with
  | nil => simp
  | cons d ds ih =>
    have hpos : 0 < size ds := by
      rcases Nat.eq_zero_or_pos (size ds) with h0 | h0
      · simp [h0] at h
      · exact h0
    simp only [unravel_cons, validIdx_cons]
    refine ⟨?_, ih (Nat.mod_lt _ hpos)⟩
    apply Nat.div_lt_of_lt_mul; rw [Nat.mul_comm]; exact h

/-! ### appended shapes -/

theorem size_append (a b : List Nat) : size (a ++ b) = size a * size b := by
  induction a with
  | nil => simp
  | cons d ds ih => simp [ih, Nat.mul_assoc]

theorem size_reverse (a : List Nat) : size a.reverse = size a := by
  induction a with
  | nil => rfl
  | cons d ds ih => simp [size_append, ih, Nat.mul_comm]

theorem ravel_append {a i : List Nat} (h : i.length = a.length) (b j : List Nat) :
    ravel (a ++ b) (i ++ j) = ravel a i * size b + ravel b j := by
  induction a generalizing i with
  | nil => cases i <;> simp_all
  | cons d ds ih =>
    cases i with
    | nil => simp at h
    | cons x xs =>
      simp only [length_cons, Nat.add_right_cancel_iff] at h
      simp only [cons_append, ravel_cons, ih h, size_append, Nat.add_mul, Nat.mul_assoc, Nat.add_assoc]

theorem unravel_append (a b : List Nat) {k : Nat} (h : k < size (a ++ b)) :
    unravel (a ++ b) k = unravel a (k / size b) ++ unravel b (k % size b) := by
  induction a generalizing k with
  | nil =>
    simp only [nil_append] at h
    simp [Nat.mod_eq_of_lt h]
  | cons d ds ih =>
    have hpos : 0 < size (ds ++ b) := by
      rcases Nat.eq_zero_or_pos (size (ds ++ b)) with h0 | h0
      · simp [h0] at h
      · exact h0
    simp only [cons_append, unravel_cons]
    rw [ih (Nat.mod_lt _ hpos)]
    simp only [size_append]
    rw [Nat.div_div_eq_div_mul, Nat.mul_comm (size b), Nat.mod_mul_left_div_self, Nat.mod_mul_left_mod]

theorem validIdx_append {a b i j : List Nat} (h1 : ValidIdx a i) (h2 : ValidIdx b j) :
    ValidIdx (a ++ b) (i ++ j) := by
  induction a generalizing i with
  | nil => cases i <;> simp_all
  | cons d ds ih =>
    cases i with
    | nil => simp_all
    | cons x xs => simp only [validIdx_cons] at h1; simp [h1.1, ih h1.2]

theorem validIdx_reverse {a i : List Nat} (h : ValidIdx a i) : ValidIdx a.reverse i.reverse := by
  induction a generalizing i with
  | nil => cases i <;> simp_all
  | cons d ds ih =>
    cases i with
    | nil => simp_all
    | cons x xs =>
      simp only [validIdx_cons] at h
      simp only [reverse_cons]
      exact validIdx_append (ih h.2) (by simp [h.1])

theorem validIdx_drop {a i : List Nat} (h : ValidIdx a i) (n : Nat) : ValidIdx (a.drop n) (i.drop n) := by
  induction n generalizing a i with
  | zero => simpa
  | succ n ih =>
    cases a with
    | nil => cases i <;> simp_all
    | cons d ds =>
      cases i with
      | nil => simp_all
      | cons x xs => simp only [validIdx_cons] at h; simpa using ih h.2

/-! ### broadcasting -/

/-- `a` broadcasts to the equally long shape `t`: every dimension is 1 or the target dimension -/
def Compat : List Nat → List Nat → Prop
  | [], [] => True
  | x :: a, y :: t => (x = 1 ∨ x = y) ∧ Compat a t
  | _, _ => False

@[simp] theorem compat_nil : Compat [] [] := trivial
@[simp] theorem compat_cons {x y : Nat} {a t : List Nat} :
    Compat (x :: a) (y :: t) ↔ (x = 1 ∨ x = y) ∧ Compat a t := Iff.rfl
@[simp] theorem compat_nil_cons {y : Nat} {t : List Nat} : ¬ Compat [] (y :: t) := fun h => h
@[simp] theorem compat_cons_nil {x : Nat} {a : List Nat} : ¬ Compat (x :: a) [] := fun h => h

theorem Compat.length_eq {a t : List Nat} (h : Compat a t) : a.length = t.length := by
  induction a generalizing t with
  | nil => cases t <;> simp_all
  | cons x a ih =>
    cases t with
    | nil => simp_all
    | cons y t => simp only [compat_cons] at h; simp [ih h.2]

/-- the index-wise reading of `Compat` -/
theorem compat_iff {a t : List Nat} :
    Compat a t ↔ a.length = t.length ∧ ∀ j, j < a.length → a.getD j 0 = 1 ∨ a.getD j 0 = t.getD j 0 := by
  induction a generalizing t with
  | nil => cases t <;> simp
  | cons x a ih =>
    cases t with
    | nil => simp
    | cons y t =>
      simp only [compat_cons, ih, length_cons, Nat.add_right_cancel_iff]
      constructor
      · rintro ⟨h0, hl, h⟩
        refine ⟨hl, fun j hj => ?_⟩
        cases j with
        | zero => simpa using h0
        | succ j => simpa using h j (by omega)
      · rintro ⟨hl, h⟩
        refine ⟨by simpa using h 0 (by omega), hl, fun j hj => ?_⟩
        simpa using h (j + 1) (by omega)

theorem compat_self (a : List Nat) : Compat a a := by
  induction a with
  | nil => simp
  | cons x a ih => simp [ih]

theorem compat_append {a t a' t' : List Nat} (h1 : Compat a t) (h2 : Compat a' t') :
    Compat (a ++ a') (t ++ t') := by
  induction a generalizing t with
  | nil => cases t <;> simp_all
  | cons x a ih =>
    cases t with
    | nil => simp_all
    | cons y t => simp only [compat_cons] at h1; simp [h1.1, ih h1.2]

theorem compat_reverse {a t : List Nat} (h : Compat a t) : Compat a.reverse t.reverse := by
  induction a generalizing t with
  | nil => cases t <;> simp_all
  | cons x a ih =>
    cases t with
    | nil => simp_all
    | cons y t =>
      simp only [compat_cons] at h
      simp only [reverse_cons]
      exact compat_append (ih h.2) (by simp [h.1])

theorem bcastRev_compat {a b t : List Nat} (h : bcastRev a b = some t) :
    (a.length ≤ t.length ∧ Compat a (t.take a.length)) ∧
    (b.length ≤ t.length ∧ Compat b (t.take b.length)) := by
  induction a generalizing b t with
  | nil =>
    simp only [bcastRev, Option.some.injEq] at h
    subst h
    simp [compat_self]
  | cons x a ih =>
    cases b with
    | nil =>
      simp only [bcastRev, Option.some.injEq] at h
      subst h
      simp [compat_self]
    | cons y b =>
      simp only [bcastRev] at h
      split at h
      · obtain ⟨t', ht', rfl⟩ := Option.map_eq_some_iff.mp h
        have := ih ht'
        subst x
        simp [this]
      · split at h
        · obtain ⟨t', ht', rfl⟩ := Option.map_eq_some_iff.mp h
          have := ih ht'
          simp [*]
        · split at h
          · obtain ⟨t', ht', rfl⟩ := Option.map_eq_some_iff.mp h
            have := ih ht'
            simp [*]
          · simp at h

/-- the broadcast shape is at least as long as each operand, and each operand is compatible with
the trailing part of it -/
theorem broadcastShapes_compat {a b t : List Nat} (h : broadcastShapes a b = some t) :
    (a.length ≤ t.length ∧ Compat a (t.drop (t.length - a.length))) ∧
    (b.length ≤ t.length ∧ Compat b (t.drop (t.length - b.length))) := by
  obtain ⟨t', ht', rfl⟩ := Option.map_eq_some_iff.mp h
  obtain ⟨⟨ha1, ha2⟩, ⟨hb1, hb2⟩⟩ := bcastRev_compat ht'
  simp only [length_reverse] at ha1 ha2 hb1 hb2
  refine ⟨⟨by simpa using ha1, ?_⟩, ⟨by simpa using hb1, ?_⟩⟩
  · have := compat_reverse ha2
    rw [reverse_reverse, reverse_take] at this
    simpa using this
  · have := compat_reverse hb2
    rw [reverse_reverse, reverse_take] at this
    simpa using this

theorem validIdx_zipWith_compat {a t i : List Nat} (hc : Compat a t) (hv : ValidIdx t i) :
    ValidIdx a (zipWith (fun d i => if d = 1 then 0 else i) a i) := by
  induction a generalizing t i with
  | nil => simp
  | cons x a ih =>
    cases t with
    | nil => simp_all
    | cons y t =>
      cases i with
      | nil => simp_all
      | cons j i =>
        simp only [compat_cons] at hc
        simp only [validIdx_cons] at hv
        simp only [zipWith_cons_cons, validIdx_cons]
        refine ⟨?_, ih hc.2 hv.2⟩
        rcases hc.1 with h1 | h1
        · simp [h1]
        · subst h1; split <;> omega

theorem validIdx_bcastIdx {a t idx : List Nat}
    (hc : Compat a (t.drop (t.length - a.length))) (hv : ValidIdx t idx) :
    ValidIdx a (bcastIdx a idx) := by
  unfold bcastIdx
  rw [hv.length_eq]
  exact validIdx_zipWith_compat hc (validIdx_drop hv _)

theorem length_bcastIdx {a idx : List Nat} (h : a.length ≤ idx.length) :
    (bcastIdx a idx).length = a.length := by
  unfold bcastIdx
  simp only [length_zipWith, length_drop]
  omega

/-! ### arithmetic and permutation helpers -/

theorem mul_add_lt {m n a b : Nat} (ha : a < m) (hb : b < n) : a * n + b < m * n :=
  calc a * n + b < a * n + n := by omega
    _ = (a + 1) * n := by rw [Nat.add_mul, Nat.one_mul]
    _ ≤ m * n := Nat.mul_le_mul_right _ ha

theorem mul_add_div {n a b : Nat} (hb : b < n) : (a * n + b) / n = a := by
  rw [Nat.add_comm, Nat.add_mul_div_right _ _ (by omega), Nat.div_eq_of_lt hb, Nat.zero_add]

theorem mul_add_mod {n a b : Nat} (hb : b < n) : (a * n + b) % n = b := by
  rw [Nat.add_comm, Nat.add_mul_mod_self_right, Nat.mod_eq_of_lt hb]

theorem mul_add_inj {n a b a' b' : Nat} (hb : b < n) (hb' : b' < n) (h : a * n + b = a' * n + b') :
    a = a' ∧ b = b' := by
  have h1 := mul_add_div (a := a) hb
  have h2 := mul_add_mod (a := a) hb
  rw [h, mul_add_div hb'] at h1
  rw [h, mul_add_mod hb'] at h2
  exact ⟨h1.symm, h2.symm⟩

/-- a duplicate-free list of `n` numbers below `n` is a permutation of `range n` -/
theorem perm_range_of_nodup {l : List Nat} {n : Nat} (hn : l.Nodup) (hlt : ∀ x ∈ l, x < n)
    (hlen : l.length = n) : l ~ range n :=
  (subperm_of_subset hn (fun x hx => mem_range.2 (hlt x hx))).perm_of_length_le (by simp [hlen])

theorem nodup_map_range {n : Nat} (f : Nat → Nat) (hinj : ∀ i j, i < j → j < n → f i ≠ f j) :
    ((range n).map f).Nodup := by
  rw [Nodup, pairwise_map]
  exact pairwise_lt_range.imp_of_mem fun _ hb hab => hinj _ _ hab (mem_range.1 hb)

/-- a map with a left inverse on `range n` that stays below `n` permutes `range n` -/
theorem perm_range_of_leftInverse {n : Nat} (f g : Nat → Nat) (hf : ∀ k, k < n → f k < n)
    (hg : ∀ k, k < n → g (f k) = k) : (range n).map f ~ range n := by
  apply perm_range_of_nodup
  · apply nodup_map_range
    intro i j hij hj he
    have := congrArg g he
    rw [hg i (by omega), hg j hj] at this
    omega
  · intro x hx
    obtain ⟨k, hk, rfl⟩ := mem_map.1 hx
    exact hf k (mem_range.1 hk)
  · simp

/-! ### broadcasting, special cases -/

theorem broadcastShapes_nil_left (b : List Nat) : broadcastShapes [] b = some b := by
  simp [broadcastShapes, bcastRev]

theorem broadcastShapes_nil_right (a : List Nat) : broadcastShapes a [] = some a := by
  have : bcastRev a.reverse [] = some a.reverse := by
    cases a.reverse <;> simp [bcastRev]
  simp [broadcastShapes, this]

theorem zipWith_bcast_valid {t i : List Nat} (h : ValidIdx t i) :
    zipWith (fun d i => if d = 1 then 0 else i) t i = i := by
  induction t generalizing i with
  | nil => cases i <;> simp_all
  | cons d ds ih =>
    cases i with
    | nil => simp
    | cons x xs =>
      simp only [validIdx_cons] at h
      simp only [zipWith_cons_cons, ih h.2, cons.injEq, and_true]
      split <;> omega

theorem bcastFlat_self {t : List Nat} {k : Nat} (h : k < size t) : bcastFlat t t k = k := by
  simp [bcastFlat, bcastIdx, zipWith_bcast_valid (validIdx_unravel h), ravel_unravel h]

theorem bcastFlat_nil (t : List Nat) (k : Nat) : bcastFlat [] t k = 0 := by
  simp [bcastFlat]

/-! ### matmul -/

theorem unravel_append_two {bt : List Nat} {m p β r c : Nat} (hβ : β < size bt) (hr : r < m) (hc : c < p) :
    unravel (bt ++ [m, p]) (β * (m * p) + r * p + c) = unravel bt β ++ [r, c] := by
  have hv : ValidIdx (bt ++ [m, p]) (unravel bt β ++ [r, c]) :=
    validIdx_append (validIdx_unravel hβ) (by simp [hr, hc])
  have := unravel_ravel hv
  rw [ravel_append (length_unravel _ _), ravel_unravel hβ] at this
  simpa [Nat.add_assoc] using this

theorem ravel_append_two {ba x : List Nat} (hx : x.length = ba.length) (m n r i : Nat) :
    ravel (ba ++ [m, n]) (x ++ [r, i]) = ravel ba x * (m * n) + r * n + i := by
  rw [ravel_append hx]; simp [Nat.add_assoc]

theorem matmulCore_getElem? {ba bb bt : List Nat} (h : broadcastShapes ba bb = some bt) {m n p β r c : Nat}
    (hβ : β < size bt) (hr : r < m) (hc : c < p) :
    (matmulCore ba bb bt m n p)[β * (m * p) + r * p + c]? =
      some ((range n).map fun i =>
        (bcastFlat ba bt β * (m * n) + r * n + i, bcastFlat bb bt β * (n * p) + i * p + c)) := by
  obtain ⟨⟨hla, _⟩, ⟨hlb, _⟩⟩ := broadcastShapes_compat h
  have hlt : β * (m * p) + r * p + c < size (bt ++ [m, p]) := by
    have := mul_add_lt hβ (mul_add_lt hr hc)
    simpa [size_append, Nat.add_assoc] using this
  unfold matmulCore
  rw [getElem?_map, getElem?_range hlt]
  simp only [Option.map_some, unravel_append_two hβ hr hc]
  have e1 : take bt.length (unravel bt β ++ [r, c]) = unravel bt β := by
    rw [take_left' (length_unravel _ _)]
  have e2 : (unravel bt β ++ [r, c]).getD bt.length 0 = r := by
    simp [List.getD_eq_getElem?_getD]
  have e3 : (unravel bt β ++ [r, c]).getD (bt.length + 1) 0 = c := by
    simp [List.getD_eq_getElem?_getD]
  rw [e1, e2, e3]
  congr 1
  apply map_congr_left
  intro i _
  rw [ravel_append_two (length_bcastIdx (by simpa using hla)),
    ravel_append_two (length_bcastIdx (by simpa using hlb))]
  rfl

theorem length_matmulCore (ba bb bt : List Nat) (m n p : Nat) :
    (matmulCore ba bb bt m n p).length = size bt * (m * p) := by
  simp [matmulCore, size_append]

@[simp] theorem batchOf_append_two (ba : List Nat) (m n : Nat) : batchOf (ba ++ [m, n]) = ba := by
  simp [batchOf]
@[simp] theorem rowsOf_append_two (ba : List Nat) (m n : Nat) : rowsOf (ba ++ [m, n]) = m := by
  simp [rowsOf, List.getD_eq_getElem?_getD]
@[simp] theorem colsOf_append_two (ba : List Nat) (m n : Nat) : colsOf (ba ++ [m, n]) = n := by
  simp [colsOf, List.getD_eq_getElem?_getD]
@[simp] theorem promoteL_append_two (ba : List Nat) (m n : Nat) : promoteL (ba ++ [m, n]) = ba ++ [m, n] := by
  simp [promoteL]
@[simp] theorem promoteR_append_two (ba : List Nat) (m n : Nat) : promoteR (ba ++ [m, n]) = ba ++ [m, n] := by
  simp [promoteR]

theorem matmul_eq_core {ba bb bt : List Nat} (m n p : Nat) (h : broadcastShapes ba bb = some bt) :
    matmulShape (ba ++ [m, n]) (bb ++ [n, p]) = some (bt ++ [m, p]) ∧
    matmulPairs (ba ++ [m, n]) (bb ++ [n, p]) = matmulCore ba bb bt m n p := by
  simp [matmulShape, matmulPairs, h]

/-! ### slices -/

theorem lt_rangeLen_pos {lo hi s : Int} (hs : 0 < s) (i : Nat) :
    i < rangeLen lo hi s ↔ lo + (i : Int) * s < hi := by
  unfold rangeLen
  rw [if_pos hs]
  split
  · rename_i hlt
    rw [Int.lt_toNat, Int.lt_iff_add_one_le, Int.le_ediv_iff_mul_le hs, Int.add_mul, Int.one_mul]
    omega
  · rename_i hge
    have : 0 ≤ (i : Int) * s := Int.mul_nonneg (by omega) (by omega)
    omega

theorem lt_rangeLen_neg {lo hi s : Int} (hs : s < 0) (i : Nat) :
    i < rangeLen lo hi s ↔ hi < lo + (i : Int) * s := by
  unfold rangeLen
  rw [if_neg (by omega), if_pos hs]
  split
  · rename_i hlt
    rw [Int.lt_toNat, Int.lt_iff_add_one_le, Int.le_ediv_iff_mul_le (by omega), Int.add_mul, Int.one_mul,
      Int.mul_neg]
    omega
  · rename_i hge
    have : 0 ≤ (i : Int) * (-s) := Int.mul_nonneg (by omega) (by omega)
    rw [Int.mul_neg] at this
    omega

theorem rangeLen_zero (lo hi : Int) : rangeLen lo hi 0 = 0 := by simp [rangeLen]

@[simp] theorem length_pyRange (lo hi s : Int) : (pyRange lo hi s).length = rangeLen lo hi s := by
  simp [pyRange]

theorem getElem?_pyRange {lo hi s : Int} {i : Nat} (h : i < rangeLen lo hi s) :
    (pyRange lo hi s)[i]? = some (lo + (i : Int) * s) := by
  simp [pyRange, getElem?_range h]

theorem mem_pyRange {lo hi s x : Int} :
    x ∈ pyRange lo hi s ↔ ∃ i : Nat, x = lo + (i : Int) * s ∧ ((0 < s ∧ x < hi) ∨ (s < 0 ∧ hi < x)) := by
  simp only [pyRange, mem_map, mem_range]
  constructor
  · rintro ⟨i, hi', rfl⟩
    refine ⟨i, rfl, ?_⟩
    rcases Int.lt_trichotomy s 0 with hs | hs | hs
    · exact Or.inr ⟨hs, (lt_rangeLen_neg hs i).1 hi'⟩
    · subst hs; simp [rangeLen_zero] at hi'
    · exact Or.inl ⟨hs, (lt_rangeLen_pos hs i).1 hi'⟩
  · rintro ⟨i, rfl, h | h⟩
    · exact ⟨i, (lt_rangeLen_pos h.1 i).2 h.2, rfl⟩
    · exact ⟨i, (lt_rangeLen_neg h.1 i).2 h.2, rfl⟩

theorem adjustBound_pos (n : Nat) (v : Int) :
    adjustBound n false v = max 0 (min (n : Int) (if v < 0 then v + n else v)) := by
  unfold adjustBound
  simp only [Bool.false_eq_true, if_false]
  repeat' split
  all_goals omega

theorem adjustBound_neg (n : Nat) (v : Int) :
    adjustBound n true v = max (-1) (min ((n : Int) - 1) (if v < 0 then v + n else v)) := by
  unfold adjustBound
  simp only [if_true]
  repeat' split
  all_goals omega

theorem sliceLo_none (n : Nat) (s : Int) : sliceLo n none s = if s < 0 then (n : Int) - 1 else 0 := rfl
theorem sliceLo_some (n : Nat) (v s : Int) : sliceLo n (some v) s = adjustBound n (decide (s < 0)) v := rfl
theorem sliceHi_none (n : Nat) (s : Int) : sliceHi n none s = if s < 0 then -1 else (n : Int) := rfl
theorem sliceHi_some (n : Nat) (v s : Int) : sliceHi n (some v) s = adjustBound n (decide (s < 0)) v := rfl

theorem sliceLo_bounds (n : Nat) (start : Option Int) (s : Int) :
    (0 ≤ s → 0 ≤ sliceLo n start s ∧ sliceLo n start s ≤ n) ∧
    (s < 0 → -1 ≤ sliceLo n start s ∧ sliceLo n start s ≤ (n : Int) - 1) := by
  cases start with
  | none => rw [sliceLo_none]; constructor <;> intro h <;> split <;> omega
  | some v =>
    rw [sliceLo_some]
    constructor <;> intro h
    · rw [show decide (s < 0) = false by simp; omega, adjustBound_pos]; omega
    · rw [show decide (s < 0) = true by simp; omega, adjustBound_neg]; omega

theorem sliceHi_bounds (n : Nat) (stop : Option Int) (s : Int) :
    (0 ≤ s → 0 ≤ sliceHi n stop s ∧ sliceHi n stop s ≤ n) ∧
    (s < 0 → -1 ≤ sliceHi n stop s ∧ sliceHi n stop s ≤ (n : Int) - 1) := by
  cases stop with
  | none => rw [sliceHi_none]; constructor <;> intro h <;> split <;> omega
  | some v =>
    rw [sliceHi_some]
    constructor <;> intro h
    · rw [show decide (s < 0) = false by simp; omega, adjustBound_pos]; omega
    · rw [show decide (s < 0) = true by simp; omega, adjustBound_neg]; omega

/-- every element of the normalised range lies in `[0, n)` -/
theorem pyRange_slice_bounds (n : Nat) (start stop : Option Int) (s x : Int)
    (hx : x ∈ pyRange (sliceLo n start s) (sliceHi n stop s) s) : 0 ≤ x ∧ x < n := by
  obtain ⟨i, rfl, h | h⟩ := mem_pyRange.1 hx
  · have h1 := (sliceLo_bounds n start s).1 (by omega)
    have h2 := (sliceHi_bounds n stop s).1 (by omega)
    have : 0 ≤ (i : Int) * s := Int.mul_nonneg (by omega) (by omega)
    omega
  · have h1 := (sliceLo_bounds n start s).2 h.1
    have h2 := (sliceHi_bounds n stop s).2 h.1
    have : 0 ≤ (i : Int) * (-s) := Int.mul_nonneg (by omega) (by omega)
    rw [Int.mul_neg] at this
    omega

/-! ### axis sums -/

/-- the flat form of `sumAxisGroups`: with `P`, `d`, `Q` the sizes before, at and after the axis,
output element `o` adds up the positions `(o / Q) * (d * Q) + j * Q + o % Q`, `j < d` -/
theorem sumAxisGroups_append (pre post : List Nat) (d : Nat) :
    sumAxisGroups (pre ++ d :: post) pre.length =
      (range (size pre * size post)).map fun o =>
        (range d).map fun j => (o / size post) * (d * size post) + j * size post + o % size post := by
  unfold sumAxisGroups
  have e1 : (pre ++ d :: post).eraseIdx pre.length = pre ++ post := by
    rw [eraseIdx_append_of_length_le (Nat.le_refl _)]; simp
  have e2 : (pre ++ d :: post).getD pre.length 0 = d := by
    simp [List.getD_eq_getElem?_getD]
  simp only [e1, e2, size_append]
  apply map_congr_left
  intro o ho
  have ho' : o < size (pre ++ post) := by simpa [size_append] using ho
  have hQ : 0 < size post := by
    rcases Nat.eq_zero_or_pos (size post) with h0 | h0
    · simp [size_append, h0] at ho'
    · exact h0
  have hP : o / size post < size pre := by
    apply Nat.div_lt_of_lt_mul; rw [Nat.mul_comm]; simpa [size_append] using ho'
  apply map_congr_left
  intro j _
  rw [unravel_append _ _ ho', take_left' (length_unravel _ _), drop_left' (length_unravel _ _),
    ravel_append (length_unravel _ _), ravel_unravel hP, ravel_cons, ravel_unravel (Nat.mod_lt _ hQ)]
  simp [Nat.add_assoc]

theorem shape_split {shape : List Nat} {axis : Nat} (h : axis < shape.length) :
    shape = shape.take axis ++ shape.getD axis 0 :: shape.drop (axis + 1) ∧ (shape.take axis).length = axis := by
  refine ⟨?_, by simp; omega⟩
  conv => lhs; rw [← take_append_drop axis shape]
  congr 1
  rw [drop_eq_getElem_cons h]
  simp [List.getD_eq_getElem?_getD, h]

/-- the flat positions of one group are distinct, and distinct groups are disjoint -/
theorem sumAxis_flat_inj {d Q o j o' j' : Nat} (hj : j < d) (hj' : j' < d) (hQ : 0 < Q)
    (h : (o / Q) * (d * Q) + j * Q + o % Q = (o' / Q) * (d * Q) + j' * Q + o' % Q) : o = o' ∧ j = j' := by
  have hb : j * Q + o % Q < d * Q := mul_add_lt hj (Nat.mod_lt _ hQ)
  have hb' : j' * Q + o' % Q < d * Q := mul_add_lt hj' (Nat.mod_lt _ hQ)
  rw [Nat.add_assoc, Nat.add_assoc] at h
  obtain ⟨h1, h2⟩ := mul_add_inj hb hb' h
  obtain ⟨h3, h4⟩ := mul_add_inj (Nat.mod_lt _ hQ) (Nat.mod_lt _ hQ) h2
  refine ⟨?_, h3⟩
  rw [← Nat.div_add_mod o Q, ← Nat.div_add_mod o' Q, h1, h4]

theorem sumAxis_flat_lt {P d Q o j : Nat} (ho : o < P * Q) (hj : j < d) :
    (o / Q) * (d * Q) + j * Q + o % Q < P * d * Q := by
  have hQ : 0 < Q := by
    rcases Nat.eq_zero_or_pos Q with h0 | h0
    · simp [h0] at ho
    · exact h0
  have hP : o / Q < P := by apply Nat.div_lt_of_lt_mul; rw [Nat.mul_comm]; exact ho
  have := mul_add_lt hP (mul_add_lt hj (Nat.mod_lt o hQ))
  rw [Nat.mul_assoc, Nat.add_assoc]; exact this

theorem sum_map_const_range (n d : Nat) : ((range n).map fun _ => d).sum = n * d := by
  induction n with
  | zero => simp
  | succ n ih => simp [range_succ, ih, Nat.add_mul]

theorem sumAxis_flat_partition (P d Q : Nat) :
    let groups := (range (P * Q)).map fun o => (range d).map fun j => (o / Q) * (d * Q) + j * Q + o % Q
    groups.Pairwise List.Disjoint ∧ groups.flatten ~ range (P * d * Q) := by
  intro groups
  rcases Nat.eq_zero_or_pos Q with hQ | hQ
  · subst hQ; simp [groups]
  have hdisj : groups.Pairwise List.Disjoint := by
    simp only [groups, pairwise_map]
    apply pairwise_lt_range.imp
    intro o o' hoo' x hx hx'
    obtain ⟨j, hj, rfl⟩ := mem_map.1 hx
    obtain ⟨j', hj', he⟩ := mem_map.1 hx'
    have := (sumAxis_flat_inj (mem_range.1 hj') (mem_range.1 hj) hQ he).1
    omega
  refine ⟨hdisj, ?_⟩
  apply perm_range_of_nodup
  · rw [Nodup, pairwise_flatten]
    constructor
    · intro l hl
      obtain ⟨o, _, rfl⟩ := mem_map.1 hl
      apply nodup_map_range
      intro j j' hjj' hj' he
      have := (sumAxis_flat_inj (o := o) (o' := o) (by omega) hj' hQ he).2
      omega
    · exact hdisj.imp fun h x hx y hy hxy => h hx (hxy ▸ hy)
  · intro x hx
    obtain ⟨l, hl, hxl⟩ := mem_flatten.1 hx
    obtain ⟨o, ho, rfl⟩ := mem_map.1 hl
    obtain ⟨j, hj, rfl⟩ := mem_map.1 hxl
    exact sumAxis_flat_lt (mem_range.1 ho) (mem_range.1 hj)
  · simp only [groups, length_flatten, map_map]
    have : (List.length ∘ fun o => (range d).map fun j => (o / Q) * (d * Q) + j * Q + o % Q) = fun _ => d := by
      funext o; simp
    rw [this, sum_map_const_range]
    simp [Nat.mul_comm, Nat.mul_left_comm]

/-! ### diagonals -/

theorem mem_diagIdx {rows cols : Nat} {k : Int} {x : Nat} :
    x ∈ diagIdx rows cols k ↔ ∃ i j, i < rows ∧ j < cols ∧ (j : Int) - i = k ∧ x = i * cols + j := by
  unfold diagIdx
  split
  · rename_i hk
    simp only [mem_map, mem_range]
    constructor
    · rintro ⟨i, hi, rfl⟩
      exact ⟨i, i + k.toNat, by omega, by omega, by omega, rfl⟩
    · rintro ⟨i, j, hi, hj, hjk, rfl⟩
      refine ⟨i, by omega, ?_⟩
      have : j = i + k.toNat := by omega
      rw [this]
  · rename_i hk
    simp only [mem_map, mem_range]
    constructor
    · rintro ⟨i, hi, rfl⟩
      exact ⟨i + (-k).toNat, i, by omega, by omega, by omega, rfl⟩
    · rintro ⟨i, j, hi, hj, hjk, rfl⟩
      refine ⟨j, by omega, ?_⟩
      have : i = j + (-k).toNat := by omega
      rw [this]

theorem diagIdx_sorted (rows cols : Nat) (k : Int) : (diagIdx rows cols k).Pairwise (· < ·) := by
  unfold diagIdx
  split
  · rw [pairwise_map]
    apply pairwise_lt_range.imp
    intro i i' h
    have := Nat.mul_le_mul_right cols (Nat.le_of_lt h)
    omega
  · rw [pairwise_map]
    apply pairwise_lt_range.imp
    intro i i' h
    have := Nat.mul_le_mul_right cols (show i + (-k).toNat ≤ i' + (-k).toNat by omega)
    omega

theorem diagIdx_eq (rows cols : Nat) (k : Int) :
    diagIdx rows cols k = (range (diagIdx rows cols k).length).map fun t =>
      (t + (-k).toNat) * cols + (t + k.toNat) := by
  unfold diagIdx
  split
  · rename_i hk
    have : (-k).toNat = 0 := by omega
    simp [this]
  · rename_i hk
    have : k.toNat = 0 := by omega
    simp [this]

theorem length_diagIdx (rows cols : Nat) (k : Int) :
    (diagIdx rows cols k).length = min (rows - (-k).toNat) (cols - k.toNat) := by
  unfold diagIdx
  split
  · rename_i hk
    have : (-k).toNat = 0 := by omega
    simp [this]
  · rename_i hk
    have : k.toNat = 0 := by omega
    simp [this]

/-! ### swapaxes(-1,-2) -/

theorem swapLast_append_two {α : Type} (b : List α) (x y : α) : swapLast (b ++ [x, y]) = b ++ [y, x] := by
  simp [swapLast]

theorem swapLastSrc_append_two {b : List Nat} {m n β r c : Nat} (hβ : β < size b) (hr : r < m) (hc : c < n) :
    swapLastSrc (b ++ [m, n]) (β * (n * m) + c * m + r) = β * (m * n) + r * n + c := by
  unfold swapLastSrc
  rw [swapLast_append_two, unravel_append_two hβ hc hr, swapLast_append_two,
    ravel_append_two (length_unravel _ _), ravel_unravel hβ]

/-! ### concatenate -/

theorem unravel_append_cons {pre post : List Nat} {d p i q : Nat} (hp : p < size pre) (hi : i < d)
    (hq : q < size post) :
    unravel (pre ++ d :: post) (p * (d * size post) + i * size post + q) =
      unravel pre p ++ i :: unravel post q := by
  have hv : ValidIdx (pre ++ d :: post) (unravel pre p ++ i :: unravel post q) :=
    validIdx_append (validIdx_unravel hp) (by simp [hi, validIdx_unravel hq])
  have := unravel_ravel hv
  rw [ravel_append (length_unravel _ _), ravel_unravel hp, ravel_cons, ravel_unravel hq] at this
  simpa [Nat.add_assoc] using this

theorem ravel_append_cons {pre x : List Nat} (hx : x.length = pre.length) (d i : Nat) (post y : List Nat) :
    ravel (pre ++ d :: post) (x ++ i :: y) = ravel pre x * (d * size post) + i * size post + ravel post y := by
  rw [ravel_append hx]; simp [Nat.add_assoc]

theorem concatShape_append (pre post : List Nat) (da db : Nat) :
    concatShape (pre ++ da :: post) (pre ++ db :: post) pre.length = some (pre ++ (da + db) :: post) := by
  simp [concatShape, List.getD_eq_getElem?_getD, eraseIdx_append_of_length_le]

theorem concatSrc_getElem? {pre post : List Nat} {da db p i q : Nat} (hp : p < size pre) (hi : i < da + db)
    (hq : q < size post) :
    (concatSrc (pre ++ da :: post) (pre ++ db :: post) pre.length)[p * ((da + db) * size post) + i * size post + q]? =
      some (if i < da then (false, p * (da * size post) + i * size post + q)
            else (true, p * (db * size post) + (i - da) * size post + q)) := by
  unfold concatSrc
  have e1 : (pre ++ da :: post).getD pre.length 0 = da := by simp [List.getD_eq_getElem?_getD]
  have e2 : (pre ++ db :: post).getD pre.length 0 = db := by simp [List.getD_eq_getElem?_getD]
  have e3 : (pre ++ da :: post).set pre.length (da + db) = pre ++ (da + db) :: post := by simp
  simp only [e1, e2, e3]
  have hlt : p * ((da + db) * size post) + i * size post + q < size (pre ++ (da + db) :: post) := by
    have := mul_add_lt hp (mul_add_lt hi hq)
    simpa [size_append, Nat.add_assoc] using this
  rw [getElem?_map, getElem?_range hlt]
  simp only [Option.map_some, unravel_append_cons hp hi hq]
  have e4 : (unravel pre p ++ i :: unravel post q).getD pre.length 0 = i := by
    simp [List.getD_eq_getElem?_getD]
  have e5 : ∀ v, (unravel pre p ++ i :: unravel post q).set pre.length v = unravel pre p ++ v :: unravel post q := by
    intro v
    rw [set_append_right _ _ (by simp)]
    simp
  rw [e4, e5]
  congr 1
  split
  · rw [ravel_append_cons (length_unravel _ _), ravel_unravel hp, ravel_unravel hq]
  · rw [ravel_append_cons (length_unravel _ _), ravel_unravel hp, ravel_unravel hq]

end RsomeV.Nd
