import Mathlib.Algebra.BigOperators.Fin
import Mathlib.Algebra.BigOperators.Field
import Mathlib.Algebra.Order.BigOperators.Group.Finset
import Mathlib.Algebra.Order.Field.Basic
import Mathlib.Data.Fintype.BigOperators
import Mathlib.Order.Lattice
import Mathlib.Data.Finset.Lattice.Fold
import Mathlib.Tactic.Linarith
import Mathlib.Tactic.Ring
import Mathlib.Tactic.FieldSimp
import Mathlib.Tactic.Positivity

/-! Farkas' lemma by Fourier–Motzkin elimination over any linear ordered field, and the affine
Farkas lemma (a valid inequality of a non-empty polyhedron is a non-negative combination of its
rows).  Basis of every exactness claim for polyhedral data (C02, C08 strong duality). -/

namespace RsomeV
open Finset

variable {K : Type} [Field K] [LinearOrder K] [IsStrictOrderedRing K]

/-- finitely many lower bounds all below finitely many upper bounds: a point in between -/
lemma fm_between {ι : Type} [Fintype ι] (P Q : ι → Prop) (L U : ι → K)
    (h : ∀ p q, P p → Q q → L q ≤ U p) :
    ∃ x, (∀ q, Q q → L q ≤ x) ∧ (∀ p, P p → x ≤ U p) := by
  classical
  by_cases hQ : ∃ q, Q q
  · have hne : (univ.filter Q).Nonempty := by
      obtain ⟨q, hq⟩ := hQ; exact ⟨q, by simp [hq]⟩
    refine ⟨(univ.filter Q).sup' hne L, ?_, ?_⟩
    · intro q hq
      exact Finset.le_sup' L (by simp [hq])
    · intro p hp
      apply Finset.sup'_le
      intro q hq
      simp at hq
      exact h p q hp hq
  · by_cases hP : ∃ p, P p
    · have hne : (univ.filter P).Nonempty := by
        obtain ⟨p, hp⟩ := hP; exact ⟨p, by simp [hp]⟩
      refine ⟨(univ.filter P).inf' hne U, ?_, ?_⟩
      · intro q hq; exact absurd ⟨q, hq⟩ hQ
      · intro p hp
        exact Finset.inf'_le U (by simp [hp])
    · exact ⟨0, fun q hq => absurd ⟨q, hq⟩ hQ, fun p hp => absurd ⟨p, hp⟩ hP⟩

/-- The multiplier transfer of one Fourier–Motzkin step, for an arbitrary row functional `g`. -/
lemma fm_sum {ι : Type} [Fintype ι] (c g : ι → K) (y' : ι ⊕ (ι × ι) → K) :
    let y : ι → K := fun i =>
      (if c i = 0 then y' (Sum.inl i) else 0) +
      (if 0 < c i then ∑ q, (if c q < 0 then y' (Sum.inr (i, q)) / c i else 0) else 0) +
      (if c i < 0 then ∑ p, (if 0 < c p then y' (Sum.inr (p, i)) / (-c i) else 0) else 0)
    ∑ i, y i * g i =
      ∑ i, y' (Sum.inl i) * (if c i = 0 then g i else 0) +
      ∑ p, ∑ q, y' (Sum.inr (p, q)) *
        (if 0 < c p ∧ c q < 0 then g p / c p - g q / c q else 0) := by
  classical
  intro y
  have e1 : ∑ i, y i * g i =
      ∑ i, (if c i = 0 then y' (Sum.inl i) else 0) * g i +
      ∑ i, (if 0 < c i then ∑ q, (if c q < 0 then y' (Sum.inr (i, q)) / c i else 0) else 0) * g i +
      ∑ i, (if c i < 0 then ∑ p, (if 0 < c p then y' (Sum.inr (p, i)) / (-c i) else 0) else 0) * g i := by
    simp only [y, add_mul, Finset.sum_add_distrib]
  rw [e1]
  have t1 : ∑ i, (if c i = 0 then y' (Sum.inl i) else 0) * g i =
      ∑ i, y' (Sum.inl i) * (if c i = 0 then g i else 0) := by
    apply Finset.sum_congr rfl; intro i _; split_ifs <;> simp
  have t2 : ∑ i, (if 0 < c i then ∑ q, (if c q < 0 then y' (Sum.inr (i, q)) / c i else 0) else 0) * g i =
      ∑ p, ∑ q, (if 0 < c p ∧ c q < 0 then y' (Sum.inr (p, q)) * (g p / c p) else 0) := by
    apply Finset.sum_congr rfl; intro p _
    by_cases hp : 0 < c p
    · simp only [hp, if_true, true_and, Finset.sum_mul]
      apply Finset.sum_congr rfl; intro q _
      split_ifs
      · field_simp
      · simp
    · simp [hp]
  have t3 : ∑ i, (if c i < 0 then ∑ p, (if 0 < c p then y' (Sum.inr (p, i)) / (-c i) else 0) else 0) * g i =
      ∑ p, ∑ q, (if 0 < c p ∧ c q < 0 then y' (Sum.inr (p, q)) * (- (g q / c q)) else 0) := by
    rw [Finset.sum_comm]
    apply Finset.sum_congr rfl; intro q _
    by_cases hq : c q < 0
    · simp only [hq, if_true, and_true, Finset.sum_mul]
      apply Finset.sum_congr rfl; intro p _
      have hne : c q ≠ 0 := ne_of_lt hq
      split_ifs
      · field_simp
      · simp
    · simp [hq]
  rw [t1, t2, t3, add_assoc, ← Finset.sum_add_distrib]
  congr 1
  apply Finset.sum_congr rfl; intro p _
  rw [← Finset.sum_add_distrib]
  apply Finset.sum_congr rfl; intro q _
  split_ifs <;> ring

/-- Farkas' lemma (inequality form) over any linear ordered field, by Fourier–Motzkin. -/
theorem farkas : ∀ (n : ℕ) (ι : Type) [Fintype ι] (a : ι → Fin n → K) (b : ι → K),
    (∃ x : Fin n → K, ∀ i, ∑ j, a i j * x j ≤ b i) ∨
    (∃ y : ι → K, (∀ i, 0 ≤ y i) ∧ (∀ j, ∑ i, y i * a i j = 0) ∧ ∑ i, y i * b i < 0) := by
  classical
  intro n
  induction n with
  | zero =>
    intro ι _ a b
    by_cases h : ∀ i, 0 ≤ b i
    · left
      exact ⟨fun _ => 0, fun i => by simpa using h i⟩
    · right
      push Not at h
      obtain ⟨i0, hi0⟩ := h
      refine ⟨fun i => if i = i0 then 1 else 0, ?_, ?_, ?_⟩
      · intro i; dsimp only; split_ifs <;> norm_num
      · intro j; exact Fin.elim0 j
      · simpa using hi0
  | succ n ih =>
    intro ι _ a b
    set c : ι → K := fun i => a i 0 with hc
    set a' : ι → Fin n → K := fun i j => a i j.succ with ha'
    let A' : ι ⊕ (ι × ι) → Fin n → K := fun i' j =>
      match i' with
      | Sum.inl i => if c i = 0 then a' i j else 0
      | Sum.inr (p, q) => if 0 < c p ∧ c q < 0 then a' p j / c p - a' q j / c q else 0
    let B' : ι ⊕ (ι × ι) → K := fun i' =>
      match i' with
      | Sum.inl i => if c i = 0 then b i else 0
      | Sum.inr (p, q) => if 0 < c p ∧ c q < 0 then b p / c p - b q / c q else 0
    rcases ih (ι ⊕ (ι × ι)) A' B' with ⟨x', hx'⟩ | ⟨y', hy0, hyA, hyB⟩
    · -- feasible reduced system: choose x₀ between the bounds
      left
      let S : ι → K := fun i => ∑ j, a' i j * x' j
      have hbetween := fm_between (fun p => 0 < c p) (fun q => c q < 0)
        (fun i => (b i - S i) / c i) (fun i => (b i - S i) / c i) (by
          intro p q hp hq
          have h := hx' (Sum.inr (p, q))
          simp only [A', B', hp, hq, and_self, if_true] at h
          have hsum : ∑ j, (a' p j / c p - a' q j / c q) * x' j = S p / c p - S q / c q := by
            simp only [S, Finset.sum_div, ← Finset.sum_sub_distrib]
            apply Finset.sum_congr rfl; intro j _; ring
          rw [hsum] at h
          have : (b q - S q) / c q = b q / c q - S q / c q := by ring
          rw [this]
          have : (b p - S p) / c p = b p / c p - S p / c p := by ring
          rw [this]
          linarith)
      obtain ⟨x0, hlo, hup⟩ := hbetween
      refine ⟨Fin.cons x0 x', fun i => ?_⟩
      rw [Fin.sum_univ_succ]
      simp only [Fin.cons_zero, Fin.cons_succ]
      change c i * x0 + S i ≤ b i
      rcases lt_trichotomy (c i) 0 with hneg | hzero | hpos
      · have := hlo i hneg
        rw [div_le_iff_of_neg hneg] at this
        linarith
      · have h := hx' (Sum.inl i)
        simp only [A', B', hzero, if_true] at h
        rw [hzero]; simpa [S] using h
      · have := hup i hpos
        rw [le_div_iff₀ hpos] at this
        linarith
    · -- certificate for the reduced system lifts to the original one
      right
      let y : ι → K := fun i =>
        (if c i = 0 then y' (Sum.inl i) else 0) +
        (if 0 < c i then ∑ q, (if c q < 0 then y' (Sum.inr (i, q)) / c i else 0) else 0) +
        (if c i < 0 then ∑ p, (if 0 < c p then y' (Sum.inr (p, i)) / (-c i) else 0) else 0)
      have key : ∀ g : ι → K, ∑ i, y i * g i =
          ∑ i, y' (Sum.inl i) * (if c i = 0 then g i else 0) +
          ∑ p, ∑ q, y' (Sum.inr (p, q)) *
            (if 0 < c p ∧ c q < 0 then g p / c p - g q / c q else 0) := fun g => fm_sum c g y'
      refine ⟨y, ?_, ?_, ?_⟩
      · intro i
        have h1 : 0 ≤ (if c i = 0 then y' (Sum.inl i) else 0) := by
          split_ifs; exact hy0 _; exact le_refl _
        have h2 : 0 ≤ (if 0 < c i then ∑ q, (if c q < 0 then y' (Sum.inr (i, q)) / c i else 0) else 0) := by
          split_ifs with h
          · apply Finset.sum_nonneg; intro q _
            split_ifs
            · exact div_nonneg (hy0 _) (le_of_lt h)
            · exact le_refl _
          · exact le_refl _
        have h3 : 0 ≤ (if c i < 0 then ∑ p, (if 0 < c p then y' (Sum.inr (p, i)) / (-c i) else 0) else 0) := by
          split_ifs with h
          · apply Finset.sum_nonneg; intro p _
            split_ifs
            · exact div_nonneg (hy0 _) (by linarith)
            · exact le_refl _
          · exact le_refl _
        exact add_nonneg (add_nonneg h1 h2) h3
      · intro j
        refine Fin.cases ?_ (fun j' => ?_) j
        · -- column 0
          rw [key (fun i => a i 0)]
          have z1 : ∑ i, y' (Sum.inl i) * (if c i = 0 then a i 0 else 0) = 0 := by
            apply Finset.sum_eq_zero; intro i _
            split_ifs with h
            · have : a i 0 = 0 := h
              rw [this]; ring
            · ring
          have z2 : ∑ p, ∑ q, y' (Sum.inr (p, q)) *
              (if 0 < c p ∧ c q < 0 then a p 0 / c p - a q 0 / c q else 0) = 0 := by
            apply Finset.sum_eq_zero; intro p _
            apply Finset.sum_eq_zero; intro q _
            split_ifs with h
            · have hp : c p ≠ 0 := ne_of_gt h.1
              have hq : c q ≠ 0 := ne_of_lt h.2
              have e1 : a p 0 / c p = 1 := div_self hp
              have e2 : a q 0 / c q = 1 := div_self hq
              rw [e1, e2]; ring
            · ring
          rw [z1, z2]; ring
        · rw [key (fun i => a i j'.succ)]
          have h := hyA j'
          rw [Fintype.sum_sum_type, Fintype.sum_prod_type] at h
          exact h
      · rw [key b]
        have h := hyB
        rw [Fintype.sum_sum_type, Fintype.sum_prod_type] at h
        exact h


/-- Affine Farkas: a valid inequality of a non-empty polyhedron is a non-negative
combination of its rows (plus slack). This is the statement robust-counterpart exactness
and LP strong duality need. -/
theorem affine_farkas (n : ℕ) (ι : Type) [Fintype ι] (a : ι → Fin n → K) (b : ι → K)
    (c : Fin n → K) (γ : K)
    (hfeas : ∃ x : Fin n → K, ∀ i, ∑ j, a i j * x j ≤ b i)
    (himp : ∀ x : Fin n → K, (∀ i, ∑ j, a i j * x j ≤ b i) → ∑ j, c j * x j ≤ γ) :
    ∃ y : ι → K, (∀ i, 0 ≤ y i) ∧ (∀ j, ∑ i, y i * a i j = c j) ∧ ∑ i, y i * b i ≤ γ := by
  classical
  -- homogenised system in (t, x)
  let A : ι ⊕ Bool → Fin (n + 1) → K := fun r =>
    match r with
    | Sum.inl i => Fin.cons (-b i) (a i)
    | Sum.inr false => Fin.cons (-1) (fun _ => 0)
    | Sum.inr true => Fin.cons γ (fun j => -c j)
  let B : ι ⊕ Bool → K := fun r =>
    match r with
    | Sum.inl _ => 0
    | Sum.inr false => 0
    | Sum.inr true => -1
  rcases farkas (n + 1) (ι ⊕ Bool) A B with ⟨xt, hxt⟩ | ⟨y', hy0, hyA, hyB⟩
  · exfalso
    set t := xt 0 with ht
    set x : Fin n → K := fun j => xt j.succ with hx
    have hrow : ∀ i, -b i * t + ∑ j, a i j * x j ≤ 0 := by
      intro i
      have h := hxt (Sum.inl i)
      simp only [A, B, Fin.sum_univ_succ, Fin.cons_zero, Fin.cons_succ] at h
      exact h
    have htpos : 0 ≤ t := by
      have h := hxt (Sum.inr false)
      simp only [A, B, Fin.sum_univ_succ, Fin.cons_zero, Fin.cons_succ, zero_mul,
        Finset.sum_const_zero, add_zero] at h
      linarith
    have hobj : γ * t + ∑ j, -c j * x j ≤ -1 := by
      have h := hxt (Sum.inr true)
      simp only [A, B, Fin.sum_univ_succ, Fin.cons_zero, Fin.cons_succ] at h
      exact h
    have hobj' : γ * t - ∑ j, c j * x j ≤ -1 := by
      have : ∑ j, -c j * x j = - ∑ j, c j * x j := by
        rw [← Finset.sum_neg_distrib]; apply Finset.sum_congr rfl; intro j _; ring
      rw [this] at hobj; linarith
    rcases lt_or_eq_of_le htpos with htp | ht0
    · -- t > 0 : x / t is feasible with too large an objective
      have hf : ∀ i, ∑ j, a i j * (x j / t) ≤ b i := by
        intro i
        have : ∑ j, a i j * (x j / t) = (∑ j, a i j * x j) / t := by
          rw [Finset.sum_div]; apply Finset.sum_congr rfl; intro j _; ring
        rw [this, div_le_iff₀ htp]
        have := hrow i; linarith
      have h := himp _ hf
      have : ∑ j, c j * (x j / t) = (∑ j, c j * x j) / t := by
        rw [Finset.sum_div]; apply Finset.sum_congr rfl; intro j _; ring
      rw [this, div_le_iff₀ htp] at h
      linarith
    · -- t = 0 : x is a recession direction with c·x ≥ 1
      obtain ⟨x0, hx0⟩ := hfeas
      have hrec : ∀ i, ∑ j, a i j * x j ≤ 0 := by
        intro i; have := hrow i; rw [← ht0] at this; linarith
      have hcx : 1 ≤ ∑ j, c j * x j := by rw [← ht0] at hobj'; linarith
      set lam : K := max 0 (γ - ∑ j, c j * x0 j + 1) with hlam
      have hlam0 : 0 ≤ lam := le_max_left _ _
      have hlam1 : γ - ∑ j, c j * x0 j + 1 ≤ lam := le_max_right _ _
      have hf : ∀ i, ∑ j, a i j * (x0 j + lam * x j) ≤ b i := by
        intro i
        have : ∑ j, a i j * (x0 j + lam * x j) = ∑ j, a i j * x0 j + lam * ∑ j, a i j * x j := by
          rw [Finset.mul_sum, ← Finset.sum_add_distrib]
          apply Finset.sum_congr rfl; intro j _; ring
        rw [this]
        have h1 := hx0 i
        have h2 : lam * ∑ j, a i j * x j ≤ 0 := mul_nonpos_of_nonneg_of_nonpos hlam0 (hrec i)
        linarith
      have h := himp _ hf
      have : ∑ j, c j * (x0 j + lam * x j) = ∑ j, c j * x0 j + lam * ∑ j, c j * x j := by
        rw [Finset.mul_sum, ← Finset.sum_add_distrib]
        apply Finset.sum_congr rfl; intro j _; ring
      rw [this] at h
      have h3 : lam ≤ lam * ∑ j, c j * x j := by
        have := mul_le_mul_of_nonneg_left hcx hlam0
        linarith
      linarith
  · -- certificate: normalise by the multiplier of the objective row
    set w := y' (Sum.inr true) with hw
    have hBsum : ∑ r, y' r * B r = -w := by
      rw [Fintype.sum_sum_type]
      simp [B, hw]
    have hwpos : 0 < w := by rw [hBsum] at hyB; linarith
    have hcol0 := hyA 0
    rw [Fintype.sum_sum_type] at hcol0
    simp only [A, Fin.cons_zero, Fintype.sum_bool] at hcol0
    have hcols : ∀ j : Fin n, ∑ i, y' (Sum.inl i) * a i j = w * c j := by
      intro j
      have h := hyA j.succ
      rw [Fintype.sum_sum_type] at h
      simp only [A, Fin.cons_succ, Fintype.sum_bool] at h
      linarith
    refine ⟨fun i => y' (Sum.inl i) / w, ?_, ?_, ?_⟩
    · intro i; exact div_nonneg (hy0 _) (le_of_lt hwpos)
    · intro j
      have : ∑ i, y' (Sum.inl i) / w * a i j = (∑ i, y' (Sum.inl i) * a i j) / w := by
        rw [Finset.sum_div]; apply Finset.sum_congr rfl; intro i _; ring
      rw [this, hcols j]; field_simp
    · have : ∑ i, y' (Sum.inl i) / w * b i = (∑ i, y' (Sum.inl i) * b i) / w := by
        rw [Finset.sum_div]; apply Finset.sum_congr rfl; intro i _; ring
      rw [this, div_le_iff₀ hwpos]
      have hs : 0 ≤ y' (Sum.inr false) := hy0 _
      have e : ∑ i, y' (Sum.inl i) * -b i = - ∑ i, y' (Sum.inl i) * b i := by
        rw [← Finset.sum_neg_distrib]; apply Finset.sum_congr rfl; intro i _; ring
      rw [e] at hcol0
      linarith




end RsomeV
