import RsomeV.M.RoToRoc
import Mathlib.Tactic.Linarith
import Mathlib.Tactic.Ring

/-! Helper lemmas for `Props/C03Scen.lean`: the loop of `RoToRoc.roToRoc` (model of
`dro.Model.ro_to_roc`), blocks of rows without random part, negated blocks, and the **substitution
lemma**: the substituted row at `(v, z)` is the original row at the rule values `x_s(v, z)`. -/

set_option linter.unusedSectionVars false
set_option linter.unusedSimpArgs false
set_option linter.unusedVariables false

namespace RsomeV
open Finset

variable {K : Type} [Field K] [LinearOrder K] [IsStrictOrderedRing K]

namespace RoRows

lemma eval_negate (R : RoRows K) (n : ℕ) (v z : ℕ → K) :
    R.negate.eval n v z = - R.eval n v z := by
  unfold eval negate
  simp only [neg_mul, Finset.sum_neg_distrib]
  have h : ∑ j ∈ range R.nz, (-(∑ d ∈ range R.nd, R.Rl n j d * v d) + -R.Rc n j) * z j
      = - ∑ j ∈ range R.nz, ((∑ d ∈ range R.nd, R.Rl n j d * v d) + R.Rc n j) * z j := by
    rw [← Finset.sum_neg_distrib]
    apply Finset.sum_congr rfl
    intro j _; ring
  rw [h]
  ring

lemma randZero_iff (R : RoRows K) : R.randZero = true ↔
    ∀ n < R.m, ∀ j < R.nz, R.Rc n j = 0 ∧ ∀ d < R.nd, R.Rl n j d = 0 := by
  unfold randZero
  simp only [List.all_eq_true, List.mem_range, Bool.and_eq_true, decide_eq_true_eq]

/-- a block without random part does not depend on the realisation -/
lemma eval_of_randZero (R : RoRows K) (h : R.randZero = true) (n : ℕ) (hn : n < R.m)
    (v z z' : ℕ → K) : R.eval n v z = R.eval n v z' := by
  rw [randZero_iff] at h
  unfold eval
  have h0 : ∀ ζ : ℕ → K,
      ∑ j ∈ range R.nz, ((∑ d ∈ range R.nd, R.Rl n j d * v d) + R.Rc n j) * ζ j = 0 := by
    intro ζ
    apply Finset.sum_eq_zero
    intro j hj
    obtain ⟨hc, hl⟩ := h n hn j (Finset.mem_range.mp hj)
    have : ∑ d ∈ range R.nd, R.Rl n j d * v d = 0 := by
      apply Finset.sum_eq_zero
      intro d hd
      rw [hl d (Finset.mem_range.mp hd), zero_mul]
    rw [this, hc, add_zero, zero_mul]
  rw [h0 z, h0 z']

end RoRows

namespace RoToRoc

/-! ### the loop -/

lemma collect_map_ok {α β : Type} (f : α → Except Err β) :
    ∀ (L : List α) (as : List β), collect (L.map f) = .ok as →
      ∀ x ∈ L, ∃ a ∈ as, f x = .ok a := by
  intro L
  induction L with
  | nil => intro as _ x hx; cases hx
  | cons y L ih =>
    intro as h x hx
    simp only [List.map_cons] at h
    cases hy : f y with
    | error e => rw [hy] at h; simp [collect] at h
    | ok b =>
      rw [hy] at h
      cases hL : collect (L.map f) with
      | error e => simp [collect, hL] at h
      | ok bs =>
        simp only [collect, hL] at h
        have has : as = b :: bs := by
          injection h with h'; exact h'.symm
        subst has
        rcases List.mem_cons.mp hx with rfl | hx'
        · exact ⟨b, List.mem_cons_self, hy⟩
        · obtain ⟨a, ha, hfa⟩ := ih bs hL x hx'
          exact ⟨a, List.mem_cons_of_mem _ ha, hfa⟩

/-- a successful loop has produced the item of every scenario -/
lemma half_ok (C : Constr K) (r : Rule) (S : ℕ) (amb : AmbSel) (nd : ℕ → ℕ → ℕ) (h : ℕ) (eq : Bool)
    (R : RoRows K) (items : List (Item K)) (hok : half C r S amb nd h eq R = .ok items)
    (s : ℕ) (hs : s < S) :
    ∃ it ∈ items, itemOf C r amb (nd h s) h eq R s = .ok it := by
  unfold half at hok
  exact collect_map_ok _ _ _ hok s (List.mem_range.mpr hs)

/-- what a successful `itemOf` says -/
lemma itemOf_ok (C : Constr K) (r : Rule) (amb : AmbSel) (nd h : ℕ) (eq : Bool) (R : RoRows K) (s : ℕ)
    (it : Item K) (hit : itemOf C r amb nd h eq R s = .ok it) :
    rejects C r = false ∧ it.row = substRow r s nd R ∧ it.eq = eq ∧
      ((it.tag = none ∧ (substRow r s nd R).randZero = true) ∨
       (it.tag = tagFor amb s ∧ it.tag ≠ none ∧ (substRow r s nd R).randZero = false)) := by
  unfold itemOf at hit
  cases hrej : rejects C r
  · rw [hrej] at hit
    simp only [Bool.false_eq_true, if_false] at hit
    cases hz : (substRow r s nd R).randZero
    · rw [hz] at hit
      simp only [Bool.false_eq_true, if_false] at hit
      cases ht : tagFor amb s with
      | none => rw [ht] at hit; cases hit
      | some t =>
        rw [ht] at hit
        injection hit with hit
        subst hit
        exact ⟨rfl, rfl, rfl, Or.inr ⟨rfl, by simp, rfl⟩⟩
    · rw [hz] at hit
      simp only [if_true] at hit
      injection hit with hit
      subst hit
      exact ⟨rfl, rfl, rfl, Or.inl ⟨rfl, rfl⟩⟩
  · rw [hrej] at hit
    simp at hit

/-- no rejection: a decision column occurring in a random coefficient has no dependency -/
lemma not_rejects (C : Constr K) (r : Rule) (hk : C.kind = .ro) (h : rejects C r = false)
    (d : ℕ) (hd : d < r.nv) (hst : C.rst d = true) (j : ℕ) (hj : j < C.rows.nz) :
    r.mask d j = false := by
  unfold rejects at h
  rw [hk] at h
  by_contra hm
  have hm' : r.mask d j = true := by
    cases hh : r.mask d j
    · exact absurd hh hm
    · rfl
  have h1 : r.isRo C.rows.nz = true := by
    unfold Rule.isRo
    rw [List.any_eq_true]
    refine ⟨d, List.mem_range.mpr hd, ?_⟩
    rw [List.any_eq_true]
    exact ⟨j, List.mem_range.mpr hj, hm'⟩
  have h2 : ((List.range r.nv).any fun d => C.rst d && (List.range C.rows.nz).any fun j => r.mask d j)
      = true := by
    rw [List.any_eq_true]
    refine ⟨d, List.mem_range.mpr hd, ?_⟩
    rw [Bool.and_eq_true, List.any_eq_true]
    exact ⟨hst, j, List.mem_range.mpr hj, hm'⟩
  rw [h1, h2] at h
  simp at h

/-! ### the substitution lemma -/

/-- moving a column-indexed coefficient table to the decision that owns the column -/
lemma sum_col (nv nd : ℕ) (p : ℕ → Prop) [DecidablePred p] (col : ℕ → ℕ) (f v : ℕ → K)
    (hcol : ∀ d < nv, p d → col d < nd) :
    ∑ c ∈ range nd, (∑ d ∈ range nv, if p d ∧ col d = c then f d else 0) * v c
      = ∑ d ∈ range nv, if p d then f d * v (col d) else 0 := by
  simp only [Finset.sum_mul]
  rw [Finset.sum_comm]
  apply Finset.sum_congr rfl
  intro d hd
  have hd' := Finset.mem_range.mp hd
  by_cases hp : p d
  · simp only [hp, true_and, if_true]
    rw [Finset.sum_eq_single (col d)]
    · simp
    · intro c _ hc
      rw [if_neg (Ne.symm hc), zero_mul]
    · intro hc
      exact absurd (Finset.mem_range.mpr (hcol d hd' hp)) hc
  · simp only [hp, false_and, if_false, zero_mul, Finset.sum_const_zero]

lemma sum_col' (nv nd : ℕ) (col : ℕ → ℕ) (f v : ℕ → K) (hcol : ∀ d < nv, col d < nd) :
    ∑ c ∈ range nd, (∑ d ∈ range nv, if col d = c then f d else 0) * v c
      = ∑ d ∈ range nv, f d * v (col d) := by
  have := sum_col nv nd (fun _ => True) col f v (fun d hd _ => hcol d hd)
  simpa using this

/-- **Substitution lemma.**  Evaluating the substituted row of scenario `s` at the ro_model
assignment `v` and the realisation `z` is evaluating the original row (over the vt_model's columns)
at the rule values `x_s(v, z)` and `z` — provided the rule's columns exist (`hcc`, `hlc`) and no
decision column with a random coefficient is affinely adaptive (`hprod`: what the code's
`SyntaxError('Incorrect affine expressions.')` guards). -/
theorem subst_eval (r : Rule) (s nd : ℕ) (R : RoRows K) (hnv : r.nv = R.nd)
    (hcc : ∀ d < r.nv, r.cc s d < nd)
    (hlc : ∀ d < r.nv, ∀ j < R.nz, r.mask d j = true → r.lcol s d j < nd)
    (n : ℕ)
    (hprod : ∀ j < R.nz, ∀ d < r.nv, R.Rl n j d ≠ 0 → ∀ j' < R.nz, r.mask d j' = false)
    (v z : ℕ → K) :
    (substRow r s nd R).eval n v z = R.eval n (r.x R.nz s v z) z := by
  -- the three column sums of the substituted row
  have hA : ∀ j, ∑ c ∈ range nd, (∑ d ∈ range r.nv, if r.cc s d = c then R.Rl n j d else 0) * v c
      = ∑ d ∈ range r.nv, R.Rl n j d * v (r.cc s d) :=
    fun j => sum_col' r.nv nd (r.cc s) (fun d => R.Rl n j d) v hcc
  have hB : ∀ j < R.nz, ∑ c ∈ range nd,
      (∑ d ∈ range r.nv, if r.mask d j = true ∧ r.lcol s d j = c then R.al n d else 0) * v c
      = ∑ d ∈ range r.nv, if r.mask d j = true then R.al n d * v (r.lcol s d j) else 0 :=
    fun j hj => sum_col r.nv nd (fun d => r.mask d j = true) (fun d => r.lcol s d j)
      (fun d => R.al n d) v (fun d hd hp => hlc d hd j hj hp)
  have hC : ∑ c ∈ range nd, (∑ d ∈ range r.nv, if r.cc s d = c then R.al n d else 0) * v c
      = ∑ d ∈ range r.nv, R.al n d * v (r.cc s d) :=
    sum_col' r.nv nd (r.cc s) (fun d => R.al n d) v hcc
  -- the original row at the rule values
  have hR1 : ∀ j < R.nz, ∑ d ∈ range R.nd, R.Rl n j d * r.x R.nz s v z d
      = ∑ d ∈ range r.nv, R.Rl n j d * v (r.cc s d) := by
    intro j hj
    rw [← hnv]
    apply Finset.sum_congr rfl
    intro d hd
    have hd' := Finset.mem_range.mp hd
    by_cases h0 : R.Rl n j d = 0
    · rw [h0, zero_mul, zero_mul]
    · unfold Rule.x
      have : ∑ j' ∈ range R.nz, (if r.mask d j' = true then v (r.lcol s d j') * z j' else 0) = 0 := by
        apply Finset.sum_eq_zero
        intro j' hj'
        rw [hprod j hj d hd' h0 j' (Finset.mem_range.mp hj')]
        simp
      rw [this, add_zero]
  have hR2 : ∑ d ∈ range R.nd, R.al n d * r.x R.nz s v z d
      = (∑ d ∈ range r.nv, R.al n d * v (r.cc s d)) +
        ∑ j ∈ range R.nz,
          (∑ d ∈ range r.nv, if r.mask d j = true then R.al n d * v (r.lcol s d j) else 0) * z j := by
    rw [← hnv]
    unfold Rule.x
    simp only [mul_add, Finset.sum_add_distrib, Finset.mul_sum, Finset.sum_mul]
    congr 1
    rw [Finset.sum_comm]
    apply Finset.sum_congr rfl
    intro j _
    apply Finset.sum_congr rfl
    intro d _
    by_cases hm : r.mask d j = true
    · simp only [hm, if_true]; ring
    · simp [hm]
  unfold RoRows.eval
  show (∑ j ∈ range R.nz,
      ((∑ c ∈ range nd,
          ((∑ d ∈ range r.nv, if r.cc s d = c then R.Rl n j d else 0) +
           (∑ d ∈ range r.nv, if r.mask d j = true ∧ r.lcol s d j = c then R.al n d else 0)) * v c)
        + R.Rc n j) * z j)
      + ((∑ c ∈ range nd, (∑ d ∈ range r.nv, if r.cc s d = c then R.al n d else 0) * v c) + R.ac n)
    = _
  rw [hC, hR2]
  have hL : ∀ j ∈ range R.nz,
      ((∑ c ∈ range nd,
          ((∑ d ∈ range r.nv, if r.cc s d = c then R.Rl n j d else 0) +
           (∑ d ∈ range r.nv, if r.mask d j = true ∧ r.lcol s d j = c then R.al n d else 0)) * v c)
        + R.Rc n j) * z j
      = ((∑ d ∈ range R.nd, R.Rl n j d * r.x R.nz s v z d) + R.Rc n j) * z j
        + (∑ d ∈ range r.nv, if r.mask d j = true then R.al n d * v (r.lcol s d j) else 0) * z j := by
    intro j hj
    have hj' := Finset.mem_range.mp hj
    simp only [add_mul, Finset.sum_add_distrib]
    rw [hA j, hB j hj', hR1 j hj']
    ring
  rw [Finset.sum_congr rfl hL, Finset.sum_add_distrib]
  ring

/-- the same for the negated expression (right half of an equality) -/
lemma subst_eval_negate (r : Rule) (s nd : ℕ) (R : RoRows K) (hnv : r.nv = R.nd)
    (hcc : ∀ d < r.nv, r.cc s d < nd)
    (hlc : ∀ d < r.nv, ∀ j < R.nz, r.mask d j = true → r.lcol s d j < nd)
    (n : ℕ)
    (hprod : ∀ j < R.nz, ∀ d < r.nv, R.Rl n j d ≠ 0 → ∀ j' < R.nz, r.mask d j' = false)
    (v z : ℕ → K) :
    (substRow r s nd R.negate).eval n v z = - R.eval n (r.x R.nz s v z) z := by
  rw [← RoRows.eval_negate]
  exact subst_eval r s nd R.negate hnv hcc hlc n
    (fun j hj d hd h => hprod j hj d hd (fun h0 => h (by show - R.Rl n j d = 0; rw [h0, neg_zero])))
    v z

end RoToRoc
end RsomeV
