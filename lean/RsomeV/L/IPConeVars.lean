import RsomeV.L.IPConeLemmas

/-! Which symbolic variables the output of `to_soc` mentions: `x`, `r i` with `i < len β`, and the
created variables `aux k` with `k <` the number of created variables. -/

set_option linter.unusedSectionVars false
set_option linter.unusedSimpArgs false
set_option linter.unusedVariables false

namespace RsomeV.IPC

/-- `next` advances by the number of created variables -/
theorem split_next_flags : ∀ (f : ℕ) (l : Var) (R : List Var) (β : List ℕ) (n : ℕ) (res : SplitRes),
    splitF f l R β n = some res → res.next = n + res.flags.length := by
  intro f
  induction f with
  | zero => intro l R β n res h; simp [splitF_zero] at h
  | succ f ih =>
    intro l R β n res h
    rcases splitF_inv h with ⟨hp, rfl⟩ | ⟨hne, hp, hc, r1, h1, rfl⟩ | ⟨hne, hp, hc, r1, r2, h1, h2, rfl⟩
    · simp
    · have := ih _ _ _ _ r1 h1; simp only [List.length_cons]; omega
    · have e1 := ih _ _ _ _ r1 h1
      have e2 := ih _ _ _ _ r2 h2
      simp only [List.length_cons, List.length_append]; omega

/-- every variable of every cone satisfies `Q`, provided the arguments and all created variables do -/
theorem split_vars_gen (Q : Var → Prop) (hx : Q .x) (haux : ∀ k, Q (.aux k)) :
    ∀ (f : ℕ) (l : Var) (R : List Var) (β : List ℕ) (n : ℕ) (res : SplitRes),
    splitF f l R β n = some res → Q l → (∀ v ∈ R, Q v) →
    ∀ c ∈ res.cones, Q c.left ∧ Q c.u ∧ Q c.v := by
  have hget : ∀ (R : List Var), (∀ v ∈ R, Q v) → ∀ i, Q (R.getD i .x) := by
    intro R hR i
    by_cases hi : i < R.length
    · exact hR _ (getD_mem_or hi)
    · rw [List.getD_eq_default _ _ (by omega)]; exact hx
  intro f
  induction f with
  | zero => intro l R β n res h; simp [splitF_zero] at h
  | succ f ih =>
    intro l R β n res h hl hR
    rcases splitF_inv h with ⟨hp, rfl⟩ | ⟨hne, hp, hc, r1, h1, rfl⟩ | ⟨hne, hp, hc, r1, r2, h1, h2, rfl⟩
    · intro c hc
      simp only [List.mem_cons, List.not_mem_nil, or_false] at hc
      subst hc
      exact ⟨hl, hget R hR 0, hget R hR 1⟩
    · intro c hmem
      rcases List.mem_cons.mp hmem with rfl | hmem
      · exact ⟨hl, haux n, hget R hR _⟩
      · exact ih _ _ _ _ r1 h1 (haux n) (fun v hv => hR v (mem_right2 hv)) c hmem
    · intro c hmem
      rcases List.mem_cons.mp hmem with rfl | hmem
      · exact ⟨hl, haux n, haux (n + 1)⟩
      · rcases List.mem_append.mp hmem with hmem | hmem
        · exact ih _ _ _ _ r1 h1 (haux n) (fun v hv => hR v (mem_right3a hv)) c hmem
        · exact ih _ _ _ _ r2 h2 (haux (n + 1)) (fun v hv => hR v (mem_right3b hv)) c hmem

/-- the variable is `x`, an `r i` with `i < nr`, or a created variable `aux k` with `k < na` -/
def Var.ok (nr na : ℕ) : Var → Prop
  | .x => True
  | .r i => i < nr
  | .aux k => k < na

/-- the variables mentioned by the output of `to_soc` -/
theorem toSoc_vars {β : List ℕ} {out : SocOut} (hne : β ≠ []) (hpos : ∀ b ∈ β, 1 ≤ b)
    (h : toSoc β = some out) :
    (∀ p ∈ out.absRows, p.1.ok β.length out.flags.length ∧ p.2.ok β.length out.flags.length) ∧
    ∀ c ∈ out.cones, c.left.ok β.length out.flags.length ∧ c.u.ok β.length out.flags.length ∧
      c.v.ok β.length out.flags.length := by
  -- combine the two views: `lt next` for created variables, the index bound for `r i`
  have comb : ∀ (v : Var) (na : ℕ), v.lt na → (match v with | .r i => i < β.length | _ => True) →
      v.ok β.length na := by
    intro v na h1 h2
    cases v <;> simp only [Var.ok, Var.lt] at * <;> assumption
  by_cases h1 : β.length = 1
  · obtain ⟨b, rfl⟩ := List.length_eq_one_iff.mp h1
    rw [toSoc_singleton] at h
    obtain rfl := Option.some.inj h
    refine ⟨?_, by simp⟩
    intro p hp
    simp only [List.mem_cons, List.not_mem_nil, or_false] at hp
    subst hp
    simp [Var.ok]
  · have hw := wf_of hne hpos h1
    obtain ⟨m, hm, hcase⟩ := toSoc_eq hw
    let Q : Var → Prop := fun v => match v with | .r i => i < β.length | _ => True
    have hQr : ∀ v ∈ rvars β.length, Q v := by
      intro v hv; obtain ⟨i, hi, rfl⟩ := of_mem_rvars hv; exact hi
    rcases hcase with ⟨hx, r, hr, ht⟩ | ⟨he, r, hr, ht⟩
    · rw [ht] at h; obtain rfl := Option.some.inj h
      have hnext := split_next_flags _ _ _ _ _ r hr
      obtain ⟨_, hlt⟩ := split_vars _ _ _ _ _ r hr (Var.lt_aux (by omega))
        (by
          intro v hv
          rcases List.mem_append.mp hv with hv | hv
          · exact rvars_lt v hv
          · simp only [List.mem_cons, List.not_mem_nil, or_false] at hv
            subst hv; exact Var.lt_aux (by omega))
      have hq := split_vars_gen Q trivial (fun _ => trivial) _ _ _ _ _ r hr trivial
        (by
          intro v hv
          rcases List.mem_append.mp hv with hv | hv
          · exact hQr v hv
          · simp only [List.mem_cons, List.not_mem_nil, or_false] at hv
            subst hv; trivial)
      have hlen : (true :: r.flags).length = r.next := by simp only [List.length_cons]; omega
      refine ⟨?_, ?_⟩
      · intro p hp
        simp only [List.mem_cons, List.not_mem_nil, or_false] at hp
        subst hp
        simp [Var.ok]
      · intro c hc
        dsimp only at hc ⊢
        rw [hlen]
        obtain ⟨l1, l2, l3⟩ := hlt c hc
        obtain ⟨q1, q2, q3⟩ := hq c hc
        exact ⟨comb _ _ l1 q1, comb _ _ l2 q2, comb _ _ l3 q3⟩
    · rw [ht] at h; obtain rfl := Option.some.inj h
      have hnext := split_next_flags _ _ _ _ _ r hr
      obtain ⟨_, hlt⟩ := split_vars _ _ _ _ _ r hr (by trivial) (fun v hv => rvars_lt v hv)
      have hq := split_vars_gen Q trivial (fun _ => trivial) _ _ _ _ _ r hr trivial hQr
      have hlen : r.flags.length = r.next := by omega
      refine ⟨by simp, ?_⟩
      intro c hc
      dsimp only at hc ⊢
      rw [hlen]
      obtain ⟨l1, l2, l3⟩ := hlt c hc
      obtain ⟨q1, q2, q3⟩ := hq c hc
      exact ⟨comb _ _ l1 q1, comb _ _ l2 q2, comb _ _ l3 q3⟩

end RsomeV.IPC
