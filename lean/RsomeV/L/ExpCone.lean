import RsomeV.L.ConeDualWeak
import Mathlib.Analysis.SpecialFunctions.Exp
import Mathlib.Tactic.FieldSimp

/-! The closed exponential cone over `ℝ` (rsome's ordering `ExpConstr(expr1, expr2, expr3)`:
`expr3 * exp(expr1 / expr3) ≤ expr2`) has the pairing property `ExpPair` that the dual
exponential block of `gcp.Model.do_math(primal=False)` relies on. -/

namespace RsomeV

/-- the closed exponential cone, `a2 * exp (a0 / a2) ≤ a1` with its boundary face `a2 = 0` -/
def realExpCone (a0 a1 a2 : ℝ) : Prop :=
  (0 < a2 ∧ a2 * Real.exp (a0 / a2) ≤ a1) ∨ (a2 = 0 ∧ a0 ≤ 0 ∧ 0 ≤ a1)

/-- exp-cone pairing, interior case -/
theorem exp_pairing (x y z u0 u1 u2 : ℝ) (hz : 0 < z) (hu : 0 < u2)
    (h1 : z * Real.exp (x / z) ≤ y) (h2 : u2 * Real.exp (u0 / u2) ≤ u1) :
    0 ≤ -u2 * x + u1 * y - (u0 + u2) * z := by
  have hy : 0 < y := lt_of_lt_of_le (mul_pos hz (Real.exp_pos _)) h1
  have hprod : (z * Real.exp (x / z)) * (u2 * Real.exp (u0 / u2)) ≤ y * u1 :=
    mul_le_mul h1 h2 (le_of_lt (mul_pos hu (Real.exp_pos _))) (le_of_lt hy)
  have hexp : Real.exp (x / z) * Real.exp (u0 / u2) = Real.exp (x / z + u0 / u2) := by
    rw [Real.exp_add]
  have hlin : x / z + u0 / u2 + 1 ≤ Real.exp (x / z + u0 / u2) := Real.add_one_le_exp _
  have hzu : 0 < z * u2 := mul_pos hz hu
  have key : z * u2 * (x / z + u0 / u2 + 1) ≤ y * u1 := by
    calc z * u2 * (x / z + u0 / u2 + 1) ≤ z * u2 * Real.exp (x / z + u0 / u2) :=
          mul_le_mul_of_nonneg_left hlin (le_of_lt hzu)
      _ = (z * Real.exp (x / z)) * (u2 * Real.exp (u0 / u2)) := by rw [← hexp]; ring
      _ ≤ y * u1 := hprod
  have expand : z * u2 * (x / z + u0 / u2 + 1) = u2 * x + z * u0 + z * u2 := by
    field_simp
  rw [expand] at key
  linarith

/-- the real exponential cone satisfies the pairing property used by `ConeProg.coneDual_weak` -/
theorem realExpCone_pair : ExpPair realExpCone := by
  intro a0 a1 a2 u0 u1 u2 ha hu
  rcases ha with ⟨ha2, ha⟩ | ⟨ha2, ha0, ha1⟩
  · have ha1 : 0 < a1 := lt_of_lt_of_le (mul_pos ha2 (Real.exp_pos _)) ha
    rcases hu with ⟨hu2, hu⟩ | ⟨hu2, hu0, hu1⟩
    · exact exp_pairing a0 a1 a2 u0 u1 u2 ha2 hu2 ha hu
    · subst hu2
      have h1 : 0 ≤ u1 * a1 := mul_nonneg hu1 (le_of_lt ha1)
      have h2 : 0 ≤ (-u0) * a2 := mul_nonneg (by linarith) (le_of_lt ha2)
      nlinarith
  · subst ha2
    rcases hu with ⟨hu2, hu⟩ | ⟨hu2, hu0, hu1⟩
    · have hu1 : 0 < u1 := lt_of_lt_of_le (mul_pos hu2 (Real.exp_pos _)) hu
      have h1 : 0 ≤ u1 * a1 := mul_nonneg (le_of_lt hu1) ha1
      have h2 : 0 ≤ u2 * (-a0) := mul_nonneg (le_of_lt hu2) (by linarith)
      nlinarith
    · subst hu2
      have h1 : 0 ≤ u1 * a1 := mul_nonneg hu1 ha1
      nlinarith

end RsomeV
