import RsomeV.L.ConicStrong
import RsomeV.L.ConicStrongSoc
import RsomeV.L.Farkas
import Mathlib.Data.Fintype.Sum
import Mathlib.Data.Fintype.BigOperators

/-! Conic strong duality with attainment in matrix form over `Fin n → ℝ`: inequality rows,
equality rows, second-order cones on index lists (possibly overlapping), all other coordinates
free; partial Slater condition (only the cones need be strict). -/

set_option linter.unusedSectionVars false
set_option linter.unusedSimpArgs false
set_option linter.unusedVariables false

namespace RsomeV
open Finset

noncomputable section

/-- a `Fin n`-vector read through an index list, as a linear map into `Fin e.length → ℝ` -/
def readL (n : ℕ) (e : List ℕ) : (Fin n → ℝ) →ₗ[ℝ] (Fin e.length → ℝ) where
  toFun := fun ζ k => extF ζ (e.getD k.val 0)
  map_add' x y := by funext k; simp only [extF_add, Pi.add_apply]
  map_smul' t x := by funext k; simp only [extF_smul, Pi.smul_apply, smul_eq_mul, RingHom.id_apply]

/-- minus the cost, as a linear map -/
def negCostL {n : ℕ} (c : Fin n → ℝ) : (Fin n → ℝ) →ₗ[ℝ] ℝ where
  toFun := fun ζ => - ∑ j, c j * ζ j
  map_add' x y := by
    simp only [Pi.add_apply, mul_add, Finset.sum_add_distrib]; ring
  map_smul' t x := by
    simp only [Pi.smul_apply, smul_eq_mul, RingHom.id_apply]
    rw [mul_neg, Finset.mul_sum]
    congr 1
    apply Finset.sum_congr rfl; intro j _; ring

lemma sum_scatter {n : ℕ} (e : List ℕ) (he : ∀ j ∈ e, j < n) (w : ℕ → ℝ) (ζ : Fin n → ℝ) :
    ∑ k ∈ range e.length, w k * extF ζ (e.getD k 0)
      = ∑ j : Fin n, (∑ k ∈ range e.length, (if e.getD k 0 = j.val then w k else 0)) * ζ j := by
  simp only [Finset.sum_mul]
  rw [Finset.sum_comm]
  apply Finset.sum_congr rfl
  intro k hk
  have hk' : k < e.length := Finset.mem_range.mp hk
  have hlt : e.getD k 0 < n := he _ (ConeProg.getD_mem' e k hk' 0)
  rw [Finset.sum_eq_single (⟨e.getD k 0, hlt⟩ : Fin n)]
  · simp only [if_true]
    rw [← extF_val ζ ⟨e.getD k 0, hlt⟩]
  · intro j _ hj
    have : ¬ (e.getD k 0 = j.val) := fun h => hj (Fin.ext h.symm)
    rw [if_neg this, zero_mul]
  · intro hn; exact absurd (Finset.mem_univ _) hn

open ConeProg in
/-- **Conic strong duality with dual attainment (second-order cones, partial Slater), matrix
form.**  Primal: `sup { ⟪c, ζ⟫ : A ζ ≤ b, F ζ = g, ζ[q] ∈ SOC for q ∈ qs }` over `ζ : Fin n → ℝ`
(cones given by index lists, head first; coordinates in no cone are free).  If some `ζ0` satisfies
the rows and is *strictly* inside every cone, and `γ` is an upper bound of the objective on the
feasible set, then there are multipliers `lam ≥ 0` (inequality rows), `mu` (equality rows) and
`s` in the product of second-order cones (one entry per position of `qs.flatten`, blocks
`qBlocks qs 0`, the cone is self-dual) with `Aᵀ lam + Fᵀ mu - scatter s = c` and
`⟪b, lam⟫ + ⟪g, mu⟫ ≤ γ`. -/
theorem soc_strong_duality_fin {n p r : ℕ}
    (A : Fin p → Fin n → ℝ) (b : Fin p → ℝ) (F : Fin r → Fin n → ℝ) (g : Fin r → ℝ)
    (qs : List (List ℕ)) (hqs : ∀ q ∈ qs, ∀ j ∈ q, j < n)
    (c : Fin n → ℝ) (γ : ℝ)
    (hslater : ∃ ζ0 : Fin n → ℝ, (∀ i, ∑ j, A i j * ζ0 j ≤ b i) ∧ (∀ i, ∑ j, F i j * ζ0 j = g i) ∧
        ∀ q ∈ qs, socStrict (extF ζ0) q)
    (hbd : ∀ ζ : Fin n → ℝ, (∀ i, ∑ j, A i j * ζ j ≤ b i) → (∀ i, ∑ j, F i j * ζ j = g i) →
        (∀ q ∈ qs, socMem (extF ζ) q) → ∑ j, c j * ζ j ≤ γ) :
    ∃ (lam : Fin p → ℝ) (mu : Fin r → ℝ) (s : ℕ → ℝ),
      (∀ i, 0 ≤ lam i) ∧ (∀ bl ∈ qBlocks qs 0, socMem s bl) ∧
      (∀ j : Fin n, ∑ i, lam i * A i j + ∑ i, mu i * F i j
          - ∑ k ∈ range qs.flatten.length, (if qs.flatten.getD k 0 = j.val then s k else 0) = c j) ∧
      ∑ i, lam i * b i + ∑ i, mu i * g i ≤ γ := by
  obtain ⟨ζ0, hA0, hF0, hs0⟩ := hslater
  set e := qs.flatten with he
  have helt : ∀ j ∈ e, j < n := by
    intro j hj
    obtain ⟨q, hq, hjq⟩ := List.mem_flatten.mp hj
    exact hqs q hq j hjq
  set C : Set (Fin n → ℝ) := {ζ | (∀ i, ∑ j, A i j * ζ j ≤ b i) ∧ (∀ i, ∑ j, F i j * ζ j = g i)}
    with hC
  have hcomb : ∀ (M : Fin n → ℝ) (x y : Fin n → ℝ) (a' b' : ℝ),
      ∑ j, M j * (a' • x + b' • y) j = a' * ∑ j, M j * x j + b' * ∑ j, M j * y j := by
    intro M x y a' b'
    rw [Finset.mul_sum, Finset.mul_sum, ← Finset.sum_add_distrib]
    apply Finset.sum_congr rfl; intro j _
    simp only [Pi.add_apply, Pi.smul_apply, smul_eq_mul]; ring
  have hCconv : Convex ℝ C := by
    rintro x ⟨hx1, hx2⟩ y ⟨hy1, hy2⟩ a' b' ha hb hab
    refine ⟨fun i => ?_, fun i => ?_⟩
    · rw [hcomb]
      have e1 := mul_le_mul_of_nonneg_left (hx1 i) ha
      have e2 := mul_le_mul_of_nonneg_left (hy1 i) hb
      have : a' * b i + b' * b i = b i := by rw [← add_mul, hab, one_mul]
      linarith
    · rw [hcomb, hx2 i, hy2 i, ← add_mul, hab, one_mul]
  have hv : ∀ ζ : Fin n → ℝ, ∀ k < qs.flatten.length,
      extF (readL n e ζ) (0 + k) = extF ζ (qs.flatten.getD k 0) := by
    intro ζ k hk
    rw [Nat.zero_add]
    have : extF (readL n e ζ) k = (readL n e ζ) ⟨k, hk⟩ := extF_val _ ⟨k, hk⟩
    rw [this]; rfl
  have hK : ∀ ζ, readL n e ζ ∈ prodCone qs e.length ↔ ∀ q ∈ qs, socMem (extF ζ) q :=
    fun ζ => qBlocks_socMem_iff (extF ζ) qs 0 (extF (readL n e ζ)) (hv ζ)
  have hKi : ∀ ζ, readL n e ζ ∈ prodConeStrict qs e.length ↔ ∀ q ∈ qs, socStrict (extF ζ) q :=
    fun ζ => qBlocks_socStrict_iff (extF ζ) qs 0 (extF (readL n e ζ)) (hv ζ)
  obtain ⟨ψ, hψ, hL⟩ := ConicStrong.conic_lagrange C hCconv (readL n e) (negCostL c) (-γ)
    (prodCone qs e.length) (prodConeStrict qs e.length)
    (isOpen_prodConeStrict _ _) (prodConeStrict_subset _ _)
    (prodConeStrict_smul _ _) (prodCone_add_strict _ _)
    ζ0 ⟨hA0, hF0⟩ ((hKi ζ0).mpr hs0)
    (fun ζ hζ hk => by
      have := hbd ζ hζ.1 hζ.2 ((hK ζ).mp hk)
      show -γ ≤ - ∑ j, c j * ζ j
      linarith)
  obtain ⟨s, hs, hrep⟩ := prodCone_dual qs e.length rfl ψ hψ
  -- the slack scattered back to the coordinates
  set σ : Fin n → ℝ := fun j => ∑ k ∈ range e.length, (if e.getD k 0 = j.val then s k else 0)
    with hσ
  have hpoly : ∀ ζ : Fin n → ℝ, (∀ i, ∑ j, A i j * ζ j ≤ b i) → (∀ i, ∑ j, F i j * ζ j = g i) →
      ∑ j, (c j + σ j) * ζ j ≤ γ := by
    intro ζ h1 h2
    have h := hL ζ ⟨h1, h2⟩
    rw [hrep] at h
    have e1 : ∑ k ∈ range e.length, s k * extF (readL n e ζ) k
        = ∑ k ∈ range e.length, s k * extF ζ (e.getD k 0) := by
      apply Finset.sum_congr rfl
      intro k hk
      have hk' : k < e.length := Finset.mem_range.mp hk
      have : extF (readL n e ζ) k = (readL n e ζ) ⟨k, hk'⟩ := extF_val _ ⟨k, hk'⟩
      rw [this]; rfl
    rw [e1, sum_scatter e helt s ζ] at h
    have h' : -γ ≤ - (∑ j, c j * ζ j) - ∑ j, σ j * ζ j := h
    have e2 : ∑ j, (c j + σ j) * ζ j = ∑ j, c j * ζ j + ∑ j, σ j * ζ j := by
      rw [← Finset.sum_add_distrib]; apply Finset.sum_congr rfl; intro j _; ring
    rw [e2]; linarith
  -- Farkas on the polyhedral part
  set a' : Fin p ⊕ Fin r ⊕ Fin r → Fin n → ℝ := fun t => match t with
    | .inl i => A i
    | .inr (.inl i) => F i
    | .inr (.inr i) => fun j => - F i j with ha'
  set b' : Fin p ⊕ Fin r ⊕ Fin r → ℝ := fun t => match t with
    | .inl i => b i
    | .inr (.inl i) => g i
    | .inr (.inr i) => - g i with hb'
  have hsys : ∀ ζ : Fin n → ℝ, (∀ t, ∑ j, a' t j * ζ j ≤ b' t) ↔
      ((∀ i, ∑ j, A i j * ζ j ≤ b i) ∧ (∀ i, ∑ j, F i j * ζ j = g i)) := by
    intro ζ
    have hneg : ∀ i, ∑ j, - F i j * ζ j = - ∑ j, F i j * ζ j := by
      intro i
      rw [← Finset.sum_neg_distrib]; apply Finset.sum_congr rfl; intro j _; ring
    constructor
    · intro h
      refine ⟨fun i => h (.inl i), fun i => ?_⟩
      have h1 : ∑ j, F i j * ζ j ≤ g i := h (.inr (.inl i))
      have h2 : ∑ j, - F i j * ζ j ≤ - g i := h (.inr (.inr i))
      rw [hneg] at h2
      linarith
    · rintro ⟨h1, h2⟩ t
      rcases t with i | i | i
      · exact h1 i
      · exact le_of_eq (h2 i)
      · show ∑ j, - F i j * ζ j ≤ - g i
        rw [hneg, h2 i]
  obtain ⟨y, hy0, hyA, hyB⟩ := affine_farkas n (Fin p ⊕ Fin r ⊕ Fin r) a' b'
    (fun j => c j + σ j) γ ⟨ζ0, (hsys ζ0).mpr ⟨hA0, hF0⟩⟩
    (fun ζ hζ => hpoly ζ ((hsys ζ).mp hζ).1 ((hsys ζ).mp hζ).2)
  refine ⟨fun i => y (.inl i), fun i => y (.inr (.inl i)) - y (.inr (.inr i)), s,
    fun i => hy0 _, hs, ?_, ?_⟩
  · intro j
    have h := hyA j
    rw [Fintype.sum_sum_type, Fintype.sum_sum_type] at h
    simp only [ha'] at h
    have e3 : ∑ i, (y (.inr (.inl i)) - y (.inr (.inr i))) * F i j
        = ∑ i, y (.inr (.inl i)) * F i j + ∑ i, y (.inr (.inr i)) * (- F i j) := by
      rw [← Finset.sum_add_distrib]; apply Finset.sum_congr rfl; intro i _; ring
    rw [e3]
    show _ - σ j = c j
    linarith
  · have h := hyB
    rw [Fintype.sum_sum_type, Fintype.sum_sum_type] at h
    simp only [hb'] at h
    have e3 : ∑ i, (y (.inr (.inl i)) - y (.inr (.inr i))) * g i
        = ∑ i, y (.inr (.inl i)) * g i + ∑ i, y (.inr (.inr i)) * (- g i) := by
      rw [← Finset.sum_add_distrib]; apply Finset.sum_congr rfl; intro i _; ring
    rw [e3]
    linarith

end

end RsomeV
