import RsomeV.M.Dro
import RsomeV.L.ConeDualWeak
import Mathlib.Tactic.Linarith
import Mathlib.Tactic.Ring
import Mathlib.Data.List.GetD

/-! Helper lemmas for `C04.dro_exact_compiled`: the facts about the model `Dro.mixSupport` of
`Ambiguity.mix_support` and the first-stage row `Dro.droRow` that are needed to apply
`C02.rc_exact_lp` to them.

These are *copies* (same statements, same proofs, namespace `RsomeV.C04.Mix`) of lemmas of
`RsomeV/L/DroSound.lean`.  They are duplicated because `RsomeV/L/DroSound.lean` (imported by C03)
and `RsomeV/L/RobustComplete.lean` (imported by C02) both declare `RsomeV.socMem_congr`, so the two
cannot be imported into one module; this file imports neither. -/

set_option linter.unusedSectionVars false
set_option linter.unusedSimpArgs false
set_option linter.unusedVariables false

namespace RsomeV.C04.Mix
open Finset RsomeV

variable {K : Type} [Field K] [LinearOrder K] [IsStrictOrderedRing K]

/-! ### Blocks: `offs` and `locate` -/

lemma offs_zero (ws : List ℕ) : offs ws 0 = 0 := by simp [offs]

lemma offs_cons_succ (w : ℕ) (ws : List ℕ) (k : ℕ) : offs (w :: ws) (k + 1) = w + offs ws k := by
  simp [offs]

lemma offs_add_le : ∀ (ws : List ℕ) (k : ℕ), k < ws.length → offs ws k + ws.getD k 0 ≤ ws.sum
  | [], k, h => by simp at h
  | w :: ws, 0, _ => by simp [offs]
  | w :: ws, k + 1, h => by
      have := offs_add_le ws k (by simpa using h)
      rw [offs_cons_succ, List.getD_cons_succ, List.sum_cons]
      omega

lemma offs_le_sum : ∀ (ws : List ℕ) (k : ℕ), offs ws k ≤ ws.sum
  | [], k => by simp [offs]
  | w :: ws, 0 => by simp [offs]
  | w :: ws, k + 1 => by
      have := offs_le_sum ws k
      rw [offs_cons_succ, List.sum_cons]
      omega

lemma locate_offs : ∀ (ws : List ℕ) (k o : ℕ), k < ws.length → o < ws.getD k 0 →
    locate ws (offs ws k + o) = some (k, o)
  | [], k, o, h, _ => by simp at h
  | w :: ws, 0, o, _, ho => by
      have ho' : o < w := by simpa using ho
      simp [locate, offs, ho']
  | w :: ws, k + 1, o, h, ho => by
      have ih := locate_offs ws k o (by simpa using h) (by simpa using ho)
      rw [offs_cons_succ]
      unfold locate
      rw [if_neg (by omega), show w + offs ws k + o - w = offs ws k + o by omega, ih]
      rfl

lemma locate_none : ∀ (ws : List ℕ) (j : ℕ), ws.sum ≤ j → locate ws j = none
  | [], j, _ => rfl
  | w :: ws, j, h => by
      rw [List.sum_cons] at h
      unfold locate
      rw [if_neg (by omega), locate_none ws (j - w) (by omega)]
      rfl

lemma locate_some : ∀ (ws : List ℕ) (j : ℕ), j < ws.sum →
    ∃ k o, locate ws j = some (k, o) ∧ k < ws.length ∧ o < ws.getD k 0 ∧ j = offs ws k + o
  | [], j, h => by simp at h
  | w :: ws, j, h => by
      rw [List.sum_cons] at h
      by_cases hj : j < w
      · exact ⟨0, j, by simp [locate, hj], by simp, by simpa using hj, by simp [offs]⟩
      · obtain ⟨k, o, h1, h2, h3, h4⟩ := locate_some ws (j - w) (by omega)
        refine ⟨k + 1, o, ?_, by simpa using h2, by simpa using h3, ?_⟩
        · unfold locate
          rw [if_neg hj, h1]; rfl
        · rw [offs_cons_succ]; omega

/-- a sum over consecutive blocks -/
lemma sum_blocks : ∀ (ws : List ℕ) (F : ℕ → K),
    ∑ j ∈ range ws.sum, F j
      = ∑ k ∈ range ws.length, ∑ o ∈ range (ws.getD k 0), F (offs ws k + o)
  | [], F => by simp
  | w :: ws, F => by
      rw [List.sum_cons, Finset.sum_range_add, List.length_cons, Finset.sum_range_succ',
        sum_blocks ws (fun j => F (w + j))]
      simp only [List.getD_cons_succ, List.getD_cons_zero, offs_cons_succ, offs_zero, zero_add,
        add_assoc]
      rw [add_comm]

/-! ### Sums with a window of non-zeros -/

/-- a sum whose terms vanish outside the window `[lo, lo + w)` -/
lemma sum_window (n lo w : ℕ) (h : lo + w ≤ n) (F : ℕ → K)
    (hF : ∀ j < n, ¬ (lo ≤ j ∧ j < lo + w) → F j = 0) :
    ∑ j ∈ range n, F j = ∑ o ∈ range w, F (lo + o) := by
  obtain ⟨r, rfl⟩ := Nat.exists_eq_add_of_le h
  rw [Finset.sum_range_add, Finset.sum_range_add]
  have h1 : ∑ x ∈ range lo, F x = 0 := by
    apply Finset.sum_eq_zero; intro x hx
    have := Finset.mem_range.mp hx
    exact hF x (by omega) (by omega)
  have h2 : ∑ x ∈ range r, F (lo + w + x) = 0 := by
    apply Finset.sum_eq_zero; intro x hx
    have := Finset.mem_range.mp hx
    exact hF _ (by omega) (by omega)
  rw [h1, h2, zero_add, add_zero]

lemma sum_prefix (n m : ℕ) (h : m ≤ n) (F : ℕ → K) (hF : ∀ j < n, m ≤ j → F j = 0) :
    ∑ j ∈ range n, F j = ∑ j ∈ range m, F j := by
  have := sum_window n 0 m (by omega) F (fun j hj hh => hF j hj (by omega))
  simpa using this

open Dro

variable (pro : ConeProg K) (exps : List (ConeProg K × List ℕ))

lemma colW_getD (k : ℕ) : (colW exps).getD k 0 = (blk exps k).lp.nc := by
  unfold colW blk
  exact List.getD_map exps (emptyProg, []) (fun e : ConeProg K × List ℕ => e.1.lp.nc)
lemma rowW_getD (k : ℕ) : (rowW exps).getD k 0 = (blk exps k).lp.nr := by
  unfold rowW blk
  exact List.getD_map exps (emptyProg, []) (fun e : ConeProg K × List ℕ => e.1.lp.nr)
lemma colW_length : (colW exps).length = exps.length := by simp [colW]
lemma rowW_length : (rowW exps).length = exps.length := by simp [rowW]

lemma mix_nc : (mixSupport pro exps).lp.nc = colEnd pro exps + 3 * (xsrc pro exps).length := rfl
lemma mix_nr : (mixSupport pro exps).lp.nr = rowEnd pro exps + 3 * (xsrc pro exps).length := rfl

lemma pro_nc_le_colOff (k : ℕ) : pro.lp.nc ≤ colOff pro exps k := Nat.le_add_right _ _
lemma pro_nc_le_colEnd : pro.lp.nc ≤ colEnd pro exps := Nat.le_add_right _ _
lemma pro_nr_le_rowEnd : pro.lp.nr ≤ rowEnd pro exps := Nat.le_add_right _ _

lemma colOff_add_le (k : ℕ) (hk : k < exps.length) :
    colOff pro exps k + (blk exps k).lp.nc ≤ colEnd pro exps := by
  have := offs_add_le (colW exps) k (by rw [colW_length]; exact hk)
  rw [colW_getD] at this
  unfold colOff colEnd; omega

lemma rowOff_add_le (k : ℕ) (hk : k < exps.length) :
    rowOff pro exps k + (blk exps k).lp.nr ≤ rowEnd pro exps := by
  have := offs_add_le (rowW exps) k (by rw [rowW_length]; exact hk)
  rw [rowW_getD] at this
  unfold rowOff rowEnd; omega

lemma mixA_pro (i : ℕ) (hi : i < pro.lp.nr) (j : ℕ) :
    mixA pro exps i j = if j < pro.lp.nc then pro.lp.a i j else 0 := by
  unfold mixA; rw [if_pos hi]

lemma mem_xsrc (e : List ℕ) :
    e ∈ xsrc pro exps ↔
      e ∈ pro.xmat ∨ ∃ k, k < exps.length ∧ ∃ e' ∈ (blk exps k).xmat,
        e = e'.map fun j => j + colOff pro exps k := by
  show e ∈ pro.xmat ++ (List.range exps.length).flatMap (fun k =>
      (blk exps k).xmat.map fun e => e.map fun j => j + colOff pro exps k) ↔ _
  simp only [List.mem_append, List.mem_flatMap, List.mem_range, List.mem_map]
  constructor
  · rintro (h | ⟨k, hk, e', he', rfl⟩)
    · exact Or.inl h
    · exact Or.inr ⟨k, hk, e', he', rfl⟩
  · rintro (h | ⟨k, hk, e', he', rfl⟩)
    · exact Or.inl h
    · exact Or.inr ⟨k, hk, e', he', rfl⟩

lemma mem_mix_qmat (q : List ℕ) :
    q ∈ (mixSupport pro exps).qmat ↔
      q ∈ pro.qmat ∨ ∃ k, k < exps.length ∧ ∃ q' ∈ (blk exps k).qmat,
        q = q'.map fun j => j + colOff pro exps k := by
  show q ∈ pro.qmat ++ (List.range exps.length).flatMap (fun k =>
      (blk exps k).qmat.map fun q => q.map fun j => j + colOff pro exps k) ↔ _
  simp only [List.mem_append, List.mem_flatMap, List.mem_range, List.mem_map]
  constructor
  · rintro (h | ⟨k, hk, q', hq', rfl⟩)
    · exact Or.inl h
    · exact Or.inr ⟨k, hk, q', hq', rfl⟩
  · rintro (h | ⟨k, hk, q', hq', rfl⟩)
    · exact Or.inl h
    · exact Or.inr ⟨k, hk, q', hq', rfl⟩

lemma mem_mix_xmat (e : List ℕ) :
    e ∈ (mixSupport pro exps).xmat ↔ ∃ i, i < (xsrc pro exps).length ∧
      e = [colEnd pro exps + 3 * i, colEnd pro exps + 3 * i + 1, colEnd pro exps + 3 * i + 2] := by
  show e ∈ (List.range (xsrc pro exps).length).map (fun i =>
      [colEnd pro exps + 3 * i, colEnd pro exps + 3 * i + 1, colEnd pro exps + 3 * i + 2]) ↔ _
  simp only [List.mem_map, List.mem_range]
  constructor
  · rintro ⟨i, hi, rfl⟩; exact ⟨i, hi, rfl⟩
  · rintro ⟨i, hi, rfl⟩; exact ⟨i, hi, rfl⟩

/-- the mixed support is well formed as soon as the index lists of its inputs are in range and
the stored pattern of `pro` covers its non-zeros -/
theorem mix_wf (hst : ∀ i j, pro.lp.a i j ≠ 0 → pro.st i j = true)
    (hqp : ∀ q ∈ pro.qmat, ∀ j ∈ q, j < pro.lp.nc)
    (hqe : ∀ k < exps.length, ∀ q ∈ (blk exps k).qmat, ∀ j ∈ q, j < (blk exps k).lp.nc) :
    (mixSupport pro exps).WF where
  qlt := by
    intro q hq j hj
    rw [mix_nc]
    rcases (mem_mix_qmat pro exps q).mp hq with h | ⟨k, hk, q', hq', rfl⟩
    · have := hqp q h j hj
      have := pro_nc_le_colEnd pro exps
      omega
    · obtain ⟨j', hj', rfl⟩ := List.mem_map.mp hj
      have := hqe k hk q' hq' j' hj'
      have := colOff_add_le pro exps k hk
      omega
  xlen := by
    intro e he
    obtain ⟨i, _, rfl⟩ := (mem_mix_xmat pro exps e).mp he
    rfl
  xlt := by
    intro e he j hj
    obtain ⟨i, hi, rfl⟩ := (mem_mix_xmat pro exps e).mp he
    rw [mix_nc]
    simp only [List.mem_cons, List.not_mem_nil, or_false] at hj
    omega
  xnotneg := by intro e _ j _; rfl
  stcov := by
    intro i j h
    have h' : mixA pro exps i j ≠ 0 := h
    show (if i < pro.lp.nr then (decide (j < pro.lp.nc) && pro.st i j)
      else decide (mixA pro exps i j ≠ 0)) = true
    by_cases hi : i < pro.lp.nr
    · rw [if_pos hi]
      rw [mixA_pro pro exps i hi] at h'
      by_cases hj : j < pro.lp.nc
      · rw [if_pos hj] at h'
        simp [hj, hst i j h']
      · rw [if_neg hj] at h'; exact absurd rfl h'
    · rw [if_neg hi]
      exact decide_eq_true h'

variable (S nz nd : ℕ) (acol : ℕ → ℕ) (bcol : ℕ → ℕ → ℕ)

/-- value of the decision column selected by `c` (`0` if none) -/
def optVal (v : ℕ → K) : Option ℕ → K
  | some d => v d
  | none => 0

lemma sum_ite_some (n : ℕ) (c : Option ℕ) (v : ℕ → K) (hc : ∀ d, c = some d → d < n) :
    ∑ d ∈ range n, (if c = some d then (1:K) else 0) * v d = optVal v c := by
  cases c with
  | none => simp [optVal]
  | some d0 =>
    have e : ∀ d ∈ range n, (if some d0 = some d then (1:K) else 0) * v d
        = if d = d0 then v d else 0 := by
      intro d _
      by_cases a : d = d0
      · subst a; simp
      · have : ¬ (some d0 = some d) := fun hh => a (Option.some.inj hh).symm
        simp [a, this]
    rw [Finset.sum_congr rfl e, Finset.sum_ite_eq', if_pos (Finset.mem_range.mpr (hc d0 rfl))]
    rfl

lemma droCol_pro (j : ℕ) (hj : j < pro.lp.nc) :
    droCol pro exps S nz acol bcol j = if j < S then some (acol j) else none := by
  unfold droCol; rw [if_pos hj]

lemma droCol_blk (k : ℕ) (hk : k < exps.length) (o : ℕ) (ho : o < (blk exps k).lp.nc) :
    droCol pro exps S nz acol bcol (colOff pro exps k + o)
      = if o < nz then some (bcol k o) else none := by
  unfold droCol
  rw [if_neg (by unfold colOff; omega)]
  have : colOff pro exps k + o - pro.lp.nc = offs (colW exps) k + o := by unfold colOff; omega
  rw [this, locate_offs _ k o (by rw [colW_length]; exact hk) (by rw [colW_getD]; exact ho)]

/-- the first-stage row evaluated at a decision `v` and a point `ζ` of the mixed support -/
theorem droRow_eval (hS : S ≤ pro.lp.nc) (hnz : ∀ k < exps.length, nz ≤ (blk exps k).lp.nc)
    (hacol : ∀ s < S, acol s < nd) (hbcol : ∀ k < exps.length, ∀ j < nz, bcol k j < nd)
    (v ζ : ℕ → K) :
    (droRow pro exps S nz nd acol bcol).eval 0 v ζ
      = ∑ s ∈ range S, v (acol s) * ζ s
        + ∑ k ∈ range exps.length, ∑ j ∈ range nz, v (bcol k j) * ζ (colOff pro exps k + j) := by
  -- coefficient of column `j`
  have hcoef : ∀ j, j < colEnd pro exps →
      (∑ d ∈ range nd, (if droCol pro exps S nz acol bcol j = some d then (1:K) else 0) * v d)
        = optVal v (droCol pro exps S nz acol bcol j) := by
    intro j hj
    apply sum_ite_some
    intro d hd
    by_cases hjp : j < pro.lp.nc
    · rw [droCol_pro pro exps S nz acol bcol j hjp] at hd
      by_cases hjs : j < S
      · rw [if_pos hjs] at hd
        rw [← Option.some.inj hd]; exact hacol j hjs
      · rw [if_neg hjs] at hd; cases hd
    · obtain ⟨k, o, _, hk, ho, he⟩ := locate_some (colW exps) (j - pro.lp.nc)
        (by unfold colEnd at hj; omega)
      rw [colW_length] at hk
      rw [colW_getD] at ho
      have hj' : j = colOff pro exps k + o := by unfold colOff; omega
      rw [hj', droCol_blk pro exps S nz acol bcol k hk o ho] at hd
      by_cases hon : o < nz
      · rw [if_pos hon] at hd
        rw [← Option.some.inj hd]; exact hbcol k hk o hon
      · rw [if_neg hon] at hd; cases hd
  show (∑ j ∈ range (colEnd pro exps),
      ((∑ d ∈ range nd, (if droCol pro exps S nz acol bcol j = some d then (1:K) else 0) * v d)
        + 0) * ζ j) + ((∑ d ∈ range nd, (0:K) * v d) + 0) = _
  have hz : ∑ d ∈ range nd, (0:K) * v d = 0 := by simp
  rw [hz, add_zero, add_zero]
  have e1 : ∀ j ∈ range (colEnd pro exps),
      ((∑ d ∈ range nd, (if droCol pro exps S nz acol bcol j = some d then (1:K) else 0) * v d)
        + 0) * ζ j
      = optVal v (droCol pro exps S nz acol bcol j) * ζ j := by
    intro j hj
    rw [add_zero, hcoef j (Finset.mem_range.mp hj)]
  rw [Finset.sum_congr rfl e1]
  unfold colEnd
  rw [Finset.sum_range_add]
  congr 1
  · -- the probability block
    rw [sum_prefix pro.lp.nc S hS]
    · apply Finset.sum_congr rfl; intro s hs
      have hs' := Finset.mem_range.mp hs
      rw [droCol_pro pro exps S nz acol bcol s (by omega), if_pos hs']
      rfl
    · intro j hj hSj
      rw [droCol_pro pro exps S nz acol bcol j hj, if_neg (by omega)]
      simp [optVal]
  · -- the expectation blocks
    rw [sum_blocks (colW exps), colW_length]
    apply Finset.sum_congr rfl; intro k hk
    have hk' := Finset.mem_range.mp hk
    rw [colW_getD, sum_prefix (blk exps k).lp.nc nz (hnz k hk')]
    · apply Finset.sum_congr rfl; intro o ho
      have ho' := Finset.mem_range.mp ho
      have hlt : o < (blk exps k).lp.nc := lt_of_lt_of_le ho' (hnz k hk')
      have := droCol_blk pro exps S nz acol bcol k hk' o hlt
      unfold colOff at this ⊢
      rw [← add_assoc, this, if_pos ho']
      rfl
    · intro o ho hno
      have := droCol_blk pro exps S nz acol bcol k hk' o ho
      unfold colOff at this
      rw [← add_assoc, this, if_neg (by omega)]
      simp [optVal]

/-! #### Entries of block rows, senses, right-hand sides (for concrete instances) -/

lemma locate_row (k : ℕ) (hk : k < exps.length) (r : ℕ) (hr : r < (blk exps k).lp.nr) :
    locate (rowW exps) (rowOff pro exps k + r - pro.lp.nr) = some (k, r) := by
  have : rowOff pro exps k + r - pro.lp.nr = offs (rowW exps) k + r := by unfold rowOff; omega
  rw [this]
  exact locate_offs _ k r (by rw [rowW_length]; exact hk) (by rw [rowW_getD]; exact hr)

lemma mixA_blk (k : ℕ) (hk : k < exps.length) (r : ℕ) (hr : r < (blk exps k).lp.nr) (j : ℕ) :
    mixA pro exps (rowOff pro exps k + r) j
      = if j < pro.lp.nc then - (((idx exps k).count j : ℕ) : K) * (blk exps k).lp.b r
        else if colOff pro exps k ≤ j ∧ j < colOff pro exps k + (blk exps k).lp.nc then
          (blk exps k).lp.a r (j - colOff pro exps k) else 0 := by
  unfold mixA
  rw [if_neg (by unfold rowOff; omega), locate_row pro exps k hk r hr]

lemma mixEq_pro (i : ℕ) (hi : i < pro.lp.nr) : mixEq pro exps i = pro.lp.eq i := by
  unfold mixEq; rw [if_pos hi]

lemma mixEq_blk (k : ℕ) (hk : k < exps.length) (r : ℕ) (hr : r < (blk exps k).lp.nr) :
    mixEq pro exps (rowOff pro exps k + r) = (blk exps k).lp.eq r := by
  unfold mixEq
  rw [if_neg (by unfold rowOff; omega), locate_row pro exps k hk r hr]

lemma mix_b_pro (i : ℕ) (hi : i < pro.lp.nr) : (mixSupport pro exps).lp.b i = pro.lp.b i := by
  show (if i < pro.lp.nr then pro.lp.b i else 0) = _
  rw [if_pos hi]

lemma mix_b_ge (i : ℕ) (hi : pro.lp.nr ≤ i) : (mixSupport pro exps).lp.b i = 0 := by
  show (if i < pro.lp.nr then pro.lp.b i else 0) = _
  rw [if_neg (by omega)]

end RsomeV.C04.Mix
