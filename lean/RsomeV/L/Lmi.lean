import RsomeV.M.Lmi
import RsomeV.L.RobustSound
import Mathlib.Analysis.Matrix.Order
import Mathlib.Tactic.Linarith
import Mathlib.Tactic.Ring

/-! Lemmas for the LMI layer of the model of `gcp.Model.do_math(primal=False)`
(`LmiProg.lmiDual`, `RsomeV/M/Lmi.lean`):

* the pairing of two positive semidefinite real matrices is non-negative (`frob_nonneg`, via the
  factorisation `Y = Bᴴ B`), also when only the symmetric part of one of them is PSD;
* the duality-gap inequality `lmiDual_gap` over every linear ordered field: the LMI columns of the
  dual act as a shift of the primal cost (`ConeProg.withCost`), so the conic weak duality of
  `ConeProg.coneDual` gives  `dual value + ⟨Y, M(x)⟩ ≤ primal value`. -/

set_option linter.unusedSectionVars false
set_option linter.unusedSimpArgs false
set_option linter.unusedVariables false

namespace RsomeV
open Finset

/-! ### Pairing of positive semidefinite matrices -/

section psd
open Matrix
open scoped MatrixOrder

variable {n : Type} [Fintype n] [DecidableEq n]

/-- `0 ≤ tr(X Y)` for positive semidefinite real `X`, `Y` -/
theorem trace_mul_nonneg_of_posSemidef (X Y : Matrix n n ℝ) (hX : X.PosSemidef)
    (hY : Y.PosSemidef) : 0 ≤ (X * Y).trace := by
  obtain ⟨b, rfl⟩ := CStarAlgebra.nonneg_iff_eq_star_mul_self.mp hY.nonneg
  have h := (hX.mul_mul_conjTranspose_same b).trace_nonneg
  rw [Matrix.trace_mul_cycle] at h
  rw [star_eq_conjTranspose, Matrix.trace_mul_comm]
  exact h

/-- the entrywise (Frobenius) pairing `Σ_ij X_ij Y_ij` -/
def frob (X Y : Matrix n n ℝ) : ℝ := ∑ i, ∑ j, X i j * Y i j

lemma frob_eq_trace (X Y : Matrix n n ℝ) : frob X Y = (X * Yᵀ).trace := by
  simp [frob, Matrix.trace, Matrix.mul_apply]

lemma frob_transpose_right (X Y : Matrix n n ℝ) (hX : X.IsHermitian) : frob X Yᵀ = frob X Y := by
  unfold frob
  rw [Finset.sum_comm]
  apply Finset.sum_congr rfl; intro i _
  apply Finset.sum_congr rfl; intro j _
  have : X j i = X i j := by
    have := hX.apply i j
    simpa using this
  rw [Matrix.transpose_apply, this]

lemma frob_comm (X Y : Matrix n n ℝ) : frob X Y = frob Y X := by
  unfold frob
  apply Finset.sum_congr rfl; intro i _
  apply Finset.sum_congr rfl; intro j _
  ring

lemma frob_add_right (X Y Z : Matrix n n ℝ) : frob X (Y + Z) = frob X Y + frob X Z := by
  unfold frob
  rw [← Finset.sum_add_distrib]
  apply Finset.sum_congr rfl; intro i _
  rw [← Finset.sum_add_distrib]
  apply Finset.sum_congr rfl; intro j _
  rw [Matrix.add_apply]; ring

/-- self-duality of the PSD cone -/
theorem frob_nonneg (X Y : Matrix n n ℝ) (hX : X.PosSemidef) (hY : Y.PosSemidef) :
    0 ≤ frob X Y := by
  rw [frob_eq_trace]
  exact trace_mul_nonneg_of_posSemidef X Yᵀ hX hY.transpose

/-- … also when only the symmetric part of the right factor is PSD -/
theorem frob_nonneg_symPart_right (X Y : Matrix n n ℝ) (hX : X.PosSemidef)
    (hY : (Y + Yᵀ).PosSemidef) : 0 ≤ frob X Y := by
  have h := frob_nonneg X (Y + Yᵀ) hX hY
  rw [frob_add_right, frob_transpose_right X Y hX.1] at h
  linarith

/-- … or of the left factor -/
theorem frob_nonneg_symPart_left (X Y : Matrix n n ℝ) (hX : (X + Xᵀ).PosSemidef)
    (hY : Y.PosSemidef) : 0 ≤ frob X Y := by
  rw [frob_comm]
  exact frob_nonneg_symPart_right Y X hY hX

end psd

variable {K : Type} [Field K] [LinearOrder K] [IsStrictOrderedRing K]

/-! ### Sums over the entries of the blocks -/

lemma sum_range_mul_block (d : ℕ) (f : ℕ → K) : ∀ m,
    ∑ e ∈ range (m * d), f e = ∑ i ∈ range m, ∑ j ∈ range d, f (i * d + j) := by
  intro m
  induction m with
  | zero => simp
  | succ m ih =>
    rw [Nat.succ_mul, Finset.sum_range_add, ih, Finset.sum_range_succ]

namespace LmiProg

/-- entry `t` (running over all entries of all blocks) of the stacked matrices at `x` -/
def extEntry : List (LmiBlock K) → (ℕ → K) → ℕ → K
  | [], _, _ => 0
  | B :: Bs, x, t => if t < B.dim ^ 2 then B.entry x t else extEntry Bs x (t - B.dim ^ 2)

lemma total_cons (B : LmiBlock K) (Bs : List (LmiBlock K)) :
    total (B :: Bs) = B.dim ^ 2 + total Bs := by
  simp [total]

lemma entry_eq_padded (B : LmiBlock K) (nc : ℕ) (h : B.w ≤ nc) (x : ℕ → K) (e : ℕ) :
    B.entry x e = ∑ j ∈ range nc, B.linP e j * x j - B.const e := by
  unfold LmiBlock.entry
  congr 1
  symm
  apply sum_range_tail_zero B.w nc h
  · intro j hj; simp only [LmiBlock.linP, hj, if_true]
  · intro j hj _; simp only [LmiBlock.linP, show ¬ j < B.w by omega, if_false, zero_mul]

lemma extEntry_eq (nc : ℕ) (x : ℕ → K) : ∀ (l : List (LmiBlock K)), (∀ B ∈ l, B.w ≤ nc) → ∀ t,
    extEntry l x t = ∑ j ∈ range nc, extCoef l t j * x j - extConst l t := by
  intro l
  induction l with
  | nil => intro _ t; simp [extEntry, extCoef, extConst]
  | cons B Bs ih =>
    intro hw t
    by_cases ht : t < B.dim ^ 2
    · simp only [extEntry, extCoef, extConst, ht, if_true]
      exact entry_eq_padded B nc (hw B (by simp)) x t
    · simp only [extEntry, extCoef, extConst, ht, if_false]
      exact ih (fun B' hB' => hw B' (by simp [hB'])) _

lemma extCoef_eq_zero (j : ℕ) : ∀ (l : List (LmiBlock K)),
    (∀ B ∈ l, ∀ e < B.dim ^ 2, B.linP e j = 0) → ∀ t, extCoef l t j = 0 := by
  intro l
  induction l with
  | nil => intro _ t; rfl
  | cons B Bs ih =>
    intro h t
    by_cases ht : t < B.dim ^ 2
    · simp only [extCoef, ht, if_true]; exact h B (by simp) t ht
    · simp only [extCoef, ht, if_false]
      exact ih (fun B' hB' => h B' (by simp [hB'])) _

/-- on the rows of the dual, the column selected by the code's branch
(`len(primal.qmat) == 0 or dual_socp.linear.shape[0] == pvar_num`) is the primal column the row
carries (`ConeProg.rowIdx`) -/
lemma lmiRow_eq (P : LmiProg K) (r : ℕ) (hr : r < P.cone.coneDual.lp.nr) :
    P.lmiRow r = P.cone.rowIdx r := by
  unfold lmiRow ConeProg.rowIdx
  rw [ConeProg.coneDual_nr] at hr
  rw [ConeProg.socDual_nr]
  by_cases hq : P.cone.qmat.isEmpty = true
  · have : P.cone.rowsRemoved = false := by simp [ConeProg.rowsRemoved, hq]
    simp [hq, this]
  · by_cases hok : P.cone.compactOk = true
    · have hrr : P.cone.rowsRemoved = true := by simp [ConeProg.rowsRemoved, hq, hok]
      rw [hrr] at hr ⊢
      simp only [if_true] at hr ⊢
      by_cases hlen : P.cone.linIdx.length = P.cone.lp.nc
      · have hall : ∀ j < P.cone.lp.nc, (!(P.cone.eye.contains j)) = true := by
          have h := hlen
          unfold ConeProg.linIdx at h
          have h' : ((List.range P.cone.lp.nc).filter fun j => !(P.cone.eye.contains j)).length
              = (List.range P.cone.lp.nc).length := by rw [h]; simp
          rw [List.length_filter_eq_length_iff] at h'
          intro j hj
          exact h' j (List.mem_range.mpr hj)
        have hg : P.cone.linIdx.getD r 0 = r :=
          filter_range_getD_lt P.cone.lp.nc P.cone.lp.nc le_rfl _ hall r (by omega)
        rw [hg]
        split_ifs <;> rfl
      · simp [hq, hlen]
    · have hrr : P.cone.rowsRemoved = false := by simp [ConeProg.rowsRemoved, hok]
      simp [hq, hrr]

lemma lmiDual_of_ne (P : LmiProg K) (h : ¬ P.lmi.isEmpty = true) :
    P.lmiDual =
      { cone :=
          { lp := { nr := P.cone.coneDual.lp.nr
                    nc := P.cone.coneDual.lp.nc + total P.lmi
                    a := fun r i => if i < P.cone.coneDual.lp.nc then P.cone.coneDual.lp.a r i
                      else (if i < P.cone.coneDual.lp.nc + total P.lmi
                        then P.extEntryCoef (i - P.cone.coneDual.lp.nc) r else 0)
                    b := P.cone.coneDual.lp.b
                    eq := P.cone.coneDual.lp.eq
                    ub := fun i => if i < P.cone.coneDual.lp.nc then P.cone.coneDual.lp.ub i else none
                    lb := fun i => if i < P.cone.coneDual.lp.nc then P.cone.coneDual.lp.lb i else none
                    c := fun i => if i < P.cone.coneDual.lp.nc then P.cone.coneDual.lp.c i
                      else - extConst P.lmi (i - P.cone.coneDual.lp.nc) }
            st := fun r i => if i < P.cone.coneDual.lp.nc then P.cone.coneDual.st r i
              else decide (i < P.cone.coneDual.lp.nc + total P.lmi ∧
                P.extEntryCoef (i - P.cone.coneDual.lp.nc) r ≠ 0)
            qmat := P.cone.coneDual.qmat
            xmat := P.cone.coneDual.xmat }
        lmi := dualBlocks P.lmi P.cone.coneDual.lp.nc (P.cone.coneDual.lp.nc + total P.lmi) } := by
  unfold lmiDual
  rw [if_neg h]

lemma lmiDualLegacy_of_ne (P : LmiProg K) (h : ¬ P.lmi.isEmpty = true) :
    P.lmiDualLegacy =
      { cone :=
          { lp := { nr := P.cone.coneDual.lp.nr
                    nc := P.cone.coneDual.lp.nc + total P.lmi
                    a := fun r i => if i < P.cone.coneDual.lp.nc then P.cone.coneDual.lp.a r i
                      else (if i < P.cone.coneDual.lp.nc + total P.lmi
                        then extCoef P.lmi (i - P.cone.coneDual.lp.nc) (P.lmiRow r) else 0)
                    b := P.cone.coneDual.lp.b
                    eq := P.cone.coneDual.lp.eq
                    ub := fun i => if i < P.cone.coneDual.lp.nc then P.cone.coneDual.lp.ub i else none
                    lb := fun i => if i < P.cone.coneDual.lp.nc then P.cone.coneDual.lp.lb i else none
                    c := fun i => if i < P.cone.coneDual.lp.nc then P.cone.coneDual.lp.c i
                      else - extConst P.lmi (i - P.cone.coneDual.lp.nc) }
            st := fun r i => if i < P.cone.coneDual.lp.nc then P.cone.coneDual.st r i
              else decide (i < P.cone.coneDual.lp.nc + total P.lmi ∧
                extCoef P.lmi (i - P.cone.coneDual.lp.nc) (P.lmiRow r) ≠ 0)
            qmat := P.cone.coneDual.qmat
            xmat := P.cone.coneDual.xmat }
        lmi := dualBlocks P.lmi P.cone.coneDual.lp.nc (P.cone.coneDual.lp.nc + total P.lmi) } := by
  unfold lmiDualLegacy
  rw [if_neg h]

lemma lmiDual_of_empty (P : LmiProg K) (h : P.lmi.isEmpty = true) :
    P.lmiDual = { cone := P.cone.coneDual, lmi := [] } := by
  unfold lmiDual
  rw [if_pos h]

lemma extEntryCoef_of_neg (P : LmiProg K) (t r : ℕ) (h : P.cone.lp.isNeg (P.lmiRow r) = true) :
    P.extEntryCoef t r = - extCoef P.lmi t (P.lmiRow r) := by
  unfold extEntryCoef; rw [if_pos h]

lemma extEntryCoef_of_not_neg (P : LmiProg K) (t r : ℕ) (h : P.cone.lp.isNeg (P.lmiRow r) = false) :
    P.extEntryCoef t r = extCoef P.lmi t (P.lmiRow r) := by
  unfold extEntryCoef; rw [h]; simp

lemma sum_extEntryCoef (P : LmiProg K) (w : ℕ → K) (n T r : ℕ) :
    ∑ i ∈ range T, P.extEntryCoef i r * w (n + i)
      = if P.cone.lp.isNeg (P.lmiRow r) then - ∑ t ∈ range T, extCoef P.lmi t (P.lmiRow r) * w (n + t)
        else ∑ t ∈ range T, extCoef P.lmi t (P.lmiRow r) * w (n + t) := by
  unfold extEntryCoef
  by_cases hn : P.cone.lp.isNeg (P.lmiRow r) = true
  · simp only [hn, if_true, neg_mul, Finset.sum_neg_distrib]
  · simp only [hn]; simp

/-- **The duality-gap inequality of the LMI layer** (every linear ordered field; no semidefiniteness
used): for a point `x` of the conic part of the primal and a point `w` of the conic part of the dual,
`(dual value) + Σ_t w(n+t) · (entry t of the stacked LMI matrices at x) ≤ (primal value)`.

Side conditions beyond those of `ConeProg.coneDual_weak`:
* `hwd`  : no block is wider than the program;
* `hlq`  : in the compact SOC layout no block has a coefficient on a second-order-cone column (those
  are auxiliary columns; their dual rows are eliminated and the coefficient would be dropped). -/
theorem lmiDual_gap (P : LmiProg K) (E : K → K → K → Prop) (hE : ExpPair E) (hwf : P.cone.WF)
    (hc : P.cone.rowsRemoved = true → ∀ q ∈ P.cone.qmat, ∀ j ∈ q, P.cone.lp.c j = 0)
    (hxq : P.cone.rowsRemoved = true → ∀ e ∈ P.cone.xmat, ∀ j ∈ e, j ∉ P.cone.eye)
    (hwd : ∀ B ∈ P.lmi, B.w ≤ P.cone.lp.nc)
    (hlq : P.cone.rowsRemoved = true → ∀ B ∈ P.lmi, ∀ e < B.dim ^ 2, ∀ j ∈ P.cone.eye, B.linP e j = 0)
    (x w : ℕ → K) (hx : P.cone.Feas E x) (hw : P.lmiDual.cone.Feas E w) :
    - P.lmiDual.cone.lp.obj w
      + ∑ t ∈ range (total P.lmi), w (P.cone.coneDual.lp.nc + t) * extEntry P.lmi x t
      ≤ P.cone.lp.obj x := by
  by_cases hne : P.lmi.isEmpty = true
  · rw [lmiDual_of_empty P hne] at hw ⊢
    have hl : P.lmi = [] := List.isEmpty_iff.mp hne
    have h := ConeProg.coneDual_weak P.cone E hE hwf hc hxq x w hx hw
    rw [hl]
    simpa [total] using h
  rw [lmiDual_of_ne P hne] at hw ⊢
  obtain ⟨⟨hrows, hubs, hlbs⟩, hsoc, hexp⟩ := hw
  set C := P.cone with hC
  set S := C.coneDual with hS
  set T := total P.lmi with hT
  -- the contribution of the LMI columns, by primal column
  set τ : ℕ → K := fun j => ∑ t ∈ range T, extCoef P.lmi t j * w (S.lp.nc + t) with hτ
  -- … and by dual row: negated on the rows the linear layer negates
  set σ : ℕ → K := fun j => if C.lp.isNeg j then - τ j else τ j with hσ
  have hτeye : C.rowsRemoved = true → ∀ j ∈ C.eye, τ j = 0 := by
    intro hrr j hj
    apply Finset.sum_eq_zero; intro t _
    rw [extCoef_eq_zero j P.lmi (fun B hB e he => hlq hrr B hB e he j hj) t, zero_mul]
  set c' : ℕ → K := fun j => C.lp.c j - τ j with hc'
  -- `w` (its first `S.lp.nc` entries) is feasible for the conic dual of the re-costed primal
  have hy : (C.withCost c').coneDual.Feas E w := by
    rw [ConeProg.coneDual_withCost]
    refine ⟨⟨?_, ?_, ?_⟩, hsoc, hexp⟩
    · intro r hr
      have hr' : r < S.lp.nr := hr
      have h := hrows r hr'
      have hsplit : ∑ i ∈ range (S.lp.nc + T),
          (if i < S.lp.nc then S.lp.a r i
            else (if i < S.lp.nc + T then P.extEntryCoef (i - S.lp.nc) r else 0)) * w i
          = S.lp.row r w + σ (P.lmiRow r) := by
        rw [Finset.sum_range_add]
        congr 1
        · apply Finset.sum_congr rfl; intro i hi
          have : i < S.lp.nc := Finset.mem_range.mp hi
          simp only [this, if_true]
        · have e : ∀ i ∈ range T,
              (if S.lp.nc + i < S.lp.nc then S.lp.a r (S.lp.nc + i)
                else (if S.lp.nc + i < S.lp.nc + T then P.extEntryCoef (S.lp.nc + i - S.lp.nc) r
                  else 0)) * w (S.lp.nc + i)
              = P.extEntryCoef i r * w (S.lp.nc + i) := by
            intro i hi
            have : i < T := Finset.mem_range.mp hi
            have h1 : ¬ S.lp.nc + i < S.lp.nc := by omega
            have h2 : S.lp.nc + i < S.lp.nc + T := by omega
            simp only [h1, h2, if_true, if_false, Nat.add_sub_cancel_left]
          rw [Finset.sum_congr rfl e, sum_extEntryCoef]
      have h' : if S.lp.eq r then S.lp.row r w + σ (P.lmiRow r) = S.lp.b r
          else S.lp.row r w + σ (P.lmiRow r) ≤ S.lp.b r := by
        rw [← hsplit]; exact h
      rw [lmiRow_eq P r hr', hS, ConeProg.coneDual_b] at h'
      have hrhs : C.dualRhs c' r = C.dualRhs C.lp.c r - σ (C.rowIdx r) := by
        unfold ConeProg.dualRhs
        by_cases hn : C.lp.isNeg (C.rowIdx r) = true
        · simp only [hn, if_true, hc', hσ]; ring
        · simp only [hn, hc', hσ]; simp
      show if S.lp.eq r then S.lp.row r w = C.dualRhs c' r else S.lp.row r w ≤ C.dualRhs c' r
      rw [hrhs]
      split_ifs at h' ⊢
      · linarith
      · linarith
    · intro i hi
      have hi' : i < S.lp.nc := hi
      have h := hubs i (show i < S.lp.nc + T by omega)
      simpa only [hi', if_true] using h
    · intro i hi
      have hi' : i < S.lp.nc := hi
      have h := hlbs i (show i < S.lp.nc + T by omega)
      simpa only [hi', if_true] using h
  have hwf' : (C.withCost c').WF := ⟨hwf.qlt, hwf.xlen, hwf.xlt, hwf.xnotneg, hwf.stcov⟩
  have hx' : (C.withCost c').Feas E x := ⟨⟨hx.lin.rows, hx.lin.ubs, hx.lin.lbs⟩, hx.soc, hx.exp⟩
  have hcz : (C.withCost c').rowsRemoved = true →
      ∀ q ∈ (C.withCost c').qmat, ∀ j ∈ q, (C.withCost c').lp.c j = 0 := by
    intro hrr q hq j hj
    have hrr' : C.rowsRemoved = true := hrr
    have hje : j ∈ C.eye := List.mem_flatten.mpr ⟨q, hq, hj⟩
    show c' j = 0
    simp only [hc', hc hrr' q hq j hj, hτeye hrr' j hje, sub_zero]
  have hweak := ConeProg.coneDual_weak (C.withCost c') E hE hwf' hcz hxq x w hx' hy
  have hobjS : (C.withCost c').coneDual.lp.obj w = S.lp.obj w := by
    rw [ConeProg.coneDual_withCost]; rfl
  have hobjP : (C.withCost c').lp.obj x = C.lp.obj x - ∑ j ∈ range C.lp.nc, τ j * x j := by
    show ∑ j ∈ range C.lp.nc, c' j * x j = ∑ j ∈ range C.lp.nc, C.lp.c j * x j - _
    rw [← Finset.sum_sub_distrib]
    apply Finset.sum_congr rfl; intro j _
    simp only [hc']; ring
  have hswap : ∑ j ∈ range C.lp.nc, τ j * x j
      = ∑ t ∈ range T, w (S.lp.nc + t) * ∑ j ∈ range C.lp.nc, extCoef P.lmi t j * x j := by
    simp only [hτ, Finset.sum_mul, Finset.mul_sum]
    rw [Finset.sum_comm]
    apply Finset.sum_congr rfl; intro t _
    apply Finset.sum_congr rfl; intro j _
    ring
  have hobjD : ∑ i ∈ range (S.lp.nc + T),
      (if i < S.lp.nc then S.lp.c i else - extConst P.lmi (i - S.lp.nc)) * w i
      = S.lp.obj w - ∑ t ∈ range T, extConst P.lmi t * w (S.lp.nc + t) := by
    rw [Finset.sum_range_add, sub_eq_add_neg, ← Finset.sum_neg_distrib]
    congr 1
    · apply Finset.sum_congr rfl; intro i hi
      have : i < S.lp.nc := Finset.mem_range.mp hi
      simp only [this, if_true]
    · apply Finset.sum_congr rfl; intro i _
      have h1 : ¬ S.lp.nc + i < S.lp.nc := by omega
      simp only [h1, if_false, Nat.add_sub_cancel_left]; ring
  have hent : ∑ t ∈ range T, w (S.lp.nc + t) * extEntry P.lmi x t
      = ∑ t ∈ range T, w (S.lp.nc + t) * ∑ j ∈ range C.lp.nc, extCoef P.lmi t j * x j
        - ∑ t ∈ range T, extConst P.lmi t * w (S.lp.nc + t) := by
    rw [← Finset.sum_sub_distrib]
    apply Finset.sum_congr rfl; intro t _
    rw [extEntry_eq C.lp.nc x P.lmi hwd t]; ring
  show - (∑ i ∈ range (S.lp.nc + T),
      (if i < S.lp.nc then S.lp.c i else - extConst P.lmi (i - S.lp.nc)) * w i) + _ ≤ _
  rw [hobjD, hent, ← hswap]
  rw [hobjS, hobjP] at hweak
  linarith

/-! ### The LMI blocks of the dual read the new columns -/

lemma selBlock_entry (d tot off : ℕ) (w : ℕ → K) (e : ℕ) (h : off + e < tot) :
    (selBlock d off tot : LmiBlock K).entry w e = w (off + e) := by
  unfold LmiBlock.entry selBlock
  simp only [sub_zero]
  rw [Finset.sum_eq_single (off + e)]
  · simp
  · intro c _ hc; simp [hc]
  · intro hn; exact absurd (Finset.mem_range.mpr h) hn

lemma fin_idx_lt (d : ℕ) (i j : Fin d) : i.val * d + j.val < d ^ 2 := by
  have hi := i.isLt
  have hj := j.isLt
  have : (i.val + 1) * d ≤ d * d := Nat.mul_le_mul_right d hi
  rw [pow_two]
  rw [Nat.succ_mul] at this
  omega

/-- the pairing of the new dual columns of one block with the block's matrix at `x`, as the
entrywise pairing of two `dim × dim` matrices -/
lemma block_pairing (B : LmiBlock ℝ) (x w : ℕ → ℝ) (off : ℕ) :
    ∑ e ∈ range (B.dim ^ 2), w (off + e) * B.entry x e
      = frob (B.mat x) (fun i j : Fin B.dim => w (off + (i.val * B.dim + j.val))) := by
  rw [pow_two, sum_range_mul_block B.dim (fun e => w (off + e) * B.entry x e) B.dim]
  unfold frob LmiBlock.mat
  rw [Finset.sum_range]
  apply Finset.sum_congr rfl; intro i _
  rw [Finset.sum_range]
  apply Finset.sum_congr rfl; intro j _
  ring

/-- pairing of all blocks, for any reading `Pp` / `Pd` of "PSD" on the primal / dual side whose
members pair non-negatively -/
lemma blocks_pairing_nonneg
    (Pp Pd : ∀ d : ℕ, Matrix (Fin d) (Fin d) ℝ → Prop)
    (hpair : ∀ d (X Y : Matrix (Fin d) (Fin d) ℝ), Pp d X → Pd d Y → 0 ≤ frob X Y)
    (x w : ℕ → ℝ) (tot : ℕ) : ∀ (l : List (LmiBlock ℝ)) (off : ℕ), off + total l ≤ tot →
    (∀ B ∈ l, Pp B.dim (B.mat x)) → (∀ B' ∈ dualBlocks l off tot, Pd B'.dim (B'.mat w)) →
    0 ≤ ∑ t ∈ range (total l), w (off + t) * extEntry l x t := by
  intro l
  induction l with
  | nil => intro off _ _ _; simp [total]
  | cons B Bs ih =>
    intro off hle hp hd
    rw [total_cons] at hle ⊢
    rw [Finset.sum_range_add]
    have h1 : ∑ t ∈ range (B.dim ^ 2), w (off + t) * extEntry (B :: Bs) x t
        = ∑ e ∈ range (B.dim ^ 2), w (off + e) * B.entry x e := by
      apply Finset.sum_congr rfl; intro t ht
      simp only [extEntry, Finset.mem_range.mp ht, if_true]
    have h2 : ∑ t ∈ range (total Bs), w (off + (B.dim ^ 2 + t)) * extEntry (B :: Bs) x (B.dim ^ 2 + t)
        = ∑ t ∈ range (total Bs), w (off + B.dim ^ 2 + t) * extEntry Bs x t := by
      apply Finset.sum_congr rfl; intro t _
      simp only [extEntry, show ¬ B.dim ^ 2 + t < B.dim ^ 2 by omega, if_false,
        Nat.add_sub_cancel_left, add_assoc]
    rw [h1, h2, block_pairing]
    have hB := hp B (by simp)
    have hB' : Pd B.dim ((selBlock B.dim off tot : LmiBlock ℝ).mat w) :=
      hd (selBlock B.dim off tot) (by simp [dualBlocks])
    have hmat : (selBlock B.dim off tot : LmiBlock ℝ).mat w
        = fun i j : Fin B.dim => w (off + (i.val * B.dim + j.val)) := by
      funext i j
      have := fin_idx_lt B.dim i j
      show (selBlock B.dim off tot : LmiBlock ℝ).entry w (i.val * B.dim + j.val) = _
      exact selBlock_entry B.dim tot off w _ (by omega)
    rw [hmat] at hB'
    have hrest := ih (off + B.dim ^ 2) (by omega) (fun B'' h => hp B'' (by simp [h]))
      (fun B'' h => hd B'' (by simp [dualBlocks, h]))
    have := hpair B.dim _ _ hB hB'
    linarith

/-! ### Dependence of `lmiDual` on the cost vector -/

/-- the same program with another cost vector -/
def withCost (P : LmiProg K) (c' : ℕ → K) : LmiProg K :=
  { cone := P.cone.withCost c', lmi := P.lmi }

lemma lmiRow_withCost (P : LmiProg K) (c' : ℕ → K) (r : ℕ) :
    (P.withCost c').lmiRow r = P.lmiRow r := by
  unfold lmiRow
  rw [ConeProg.socDual_nr, ConeProg.socDual_nr]
  rfl

lemma extEntryCoef_withCost (P : LmiProg K) (c' : ℕ → K) (t r : ℕ) :
    (P.withCost c').extEntryCoef t r = P.extEntryCoef t r := by
  unfold extEntryCoef
  rw [lmiRow_withCost]
  rfl

/-- `lmiDual` depends on the cost only through the right-hand side `lp.b` -/
theorem lmiDual_withCost (P : LmiProg K) (c' : ℕ → K) :
    (P.withCost c').lmiDual =
      { cone := { P.lmiDual.cone with lp := { P.lmiDual.cone.lp with b := P.cone.dualRhs c' } }
        lmi := P.lmiDual.lmi } := by
  by_cases hne : P.lmi.isEmpty = true
  · have hne' : (P.withCost c').lmi.isEmpty = true := hne
    rw [lmiDual_of_empty _ hne', lmiDual_of_empty _ hne]
    show ({ cone := (P.cone.withCost c').coneDual, lmi := [] } : LmiProg K) = _
    rw [ConeProg.coneDual_withCost]
  · have hne' : ¬ (P.withCost c').lmi.isEmpty = true := hne
    rw [lmiDual_of_ne _ hne', lmiDual_of_ne _ hne]
    simp only [extEntryCoef_withCost]
    show _ = _
    have h := ConeProg.coneDual_withCost P.cone c'
    have hcone : (P.withCost c').cone.coneDual
        = { P.cone.coneDual with lp := { P.cone.coneDual.lp with b := P.cone.dualRhs c' } } := h
    rw [hcone]
    rfl

lemma lmiDual_cone_nr (P : LmiProg K) : P.lmiDual.cone.lp.nr = P.cone.coneDual.lp.nr := by
  unfold lmiDual; split_ifs <;> rfl

lemma lmiDual_cone_b (P : LmiProg K) : P.lmiDual.cone.lp.b = P.cone.coneDual.lp.b := by
  unfold lmiDual; split_ifs <;> rfl

lemma lmiDual_cone_xmat (P : LmiProg K) : P.lmiDual.cone.xmat = P.cone.coneDual.xmat := by
  unfold lmiDual; split_ifs <;> rfl

lemma lmiDual_cone_ub (P : LmiProg K) (i : ℕ) :
    P.lmiDual.cone.lp.ub i = none ∨ P.lmiDual.cone.lp.ub i = some 0 := by
  have h := ConeProg.coneDual_ub P.cone i
  unfold lmiDual
  split_ifs
  · exact h
  · show (if i < P.cone.coneDual.lp.nc then P.cone.coneDual.lp.ub i else none) = none ∨
      (if i < P.cone.coneDual.lp.nc then P.cone.coneDual.lp.ub i else none) = some 0
    split_ifs
    · exact h
    · left; rfl

lemma lmiDual_cone_lb (P : LmiProg K) (i : ℕ) :
    P.lmiDual.cone.lp.lb i = none ∨ P.lmiDual.cone.lp.lb i = some 0 := by
  have h := ConeProg.coneDual_lb P.cone i
  unfold lmiDual
  split_ifs
  · exact h
  · show (if i < P.cone.coneDual.lp.nc then P.cone.coneDual.lp.lb i else none) = none ∨
      (if i < P.cone.coneDual.lp.nc then P.cone.coneDual.lp.lb i else none) = some 0
    split_ifs
    · exact h
    · left; rfl

lemma lmiDual_cone_nc (P : LmiProg K) (h : ¬ P.lmi.isEmpty = true) :
    P.lmiDual.cone.lp.nc = P.cone.coneDual.lp.nc + total P.lmi := by
  rw [lmiDual_of_ne P h]

lemma dualBlocks_w (tot : ℕ) : ∀ (l : List (LmiBlock K)) (off : ℕ),
    ∀ B ∈ dualBlocks l off tot, B.w = tot := by
  intro l
  induction l with
  | nil => intro off B hB; simp [dualBlocks] at hB
  | cons B0 Bs ih =>
    intro off B hB
    simp only [dualBlocks, List.mem_cons] at hB
    rcases hB with h | h
    · rw [h]; rfl
    · exact ih _ B h

/-- the LMI blocks of the dual are as wide as the dual -/
lemma lmiDual_lmi_w (P : LmiProg K) : ∀ B ∈ P.lmiDual.lmi, B.w = P.lmiDual.cone.lp.nc := by
  intro B hB
  by_cases hne : P.lmi.isEmpty = true
  · rw [lmiDual_of_empty P hne] at hB; simp at hB
  · rw [lmiDual_of_ne P hne] at hB ⊢
    exact dualBlocks_w _ _ _ B hB

end LmiProg

/-! ### The LMI constraints of the robust counterpart -/

namespace RoRows

/-- the block `le_to_rc` builds for row `n` evaluates, at an assignment `v`, to the support's dual
block at the multipliers of row `n` -/
lemma rcBlock_mat (R : RoRows K) (S : ConeProg K) (n : ℕ) (hn : n < R.m) (B : LmiBlock K)
    (hw : B.w ≤ S.lp.nc) (v : ℕ → K) :
    (R.rcBlock S n B).mat v = B.mat (fun i => v (R.ycol S n i)) := by
  funext i j
  show (R.rcBlock S n B).entry v (i.val * B.dim + j.val) = B.entry _ (i.val * B.dim + j.val)
  rw [LmiProg.entry_eq_padded B S.lp.nc hw]
  unfold LmiBlock.entry rcBlock
  simp only
  rw [sum_frag R.nd R.m S.lp.nc n hn (fun _ => 0) (fun k => B.linP (i.val * B.dim + j.val) k) v]
  simp [ycol]

lemma rcBlock_mem (R : RoRows K) (S : LmiProg K) (n : ℕ) (hn : n < R.m) (B : LmiBlock K)
    (hB : B ∈ S.lmi) : R.rcBlock S.cone n B ∈ R.rcLmi S := by
  simp only [rcLmi, List.mem_flatMap, List.mem_range, List.mem_map]
  exact ⟨n, hn, B, hB, rfl⟩

end RoRows
end RsomeV
