import RsomeV.L.ConicStrongMult
import RsomeV.L.RobustSound

/-! Strong duality (no gap, dual attainment) for the model `ConeProg.coneDual` of
`do_math(primal=False)` on programs with second-order cones and no exponential cones, under a
Slater point: the conic multiplier of `ConeProg.soc_multiplier` is combined with LP strong duality
(`LinProg.dual_strong`) and assembled into a feasible point of each of the layouts that
`socDual` can choose (no cones / compact / general). -/

set_option linter.unusedSectionVars false
set_option linter.unusedSimpArgs false
set_option linter.unusedVariables false

namespace RsomeV
open Finset

noncomputable section

namespace LinProg

variable {K : Type} [Field K] [LinearOrder K] [IsStrictOrderedRing K]

/-- LP strong duality with a slack `σ` in the dual rows (converse of `dual_weak_slack`) -/
theorem dual_strong_slack (P : LinProg K) (σ : ℕ → K) (γ : K) (hfeas : ∃ x, P.Feas x)
    (hbd : ∀ x, P.Feas x → γ ≤ P.obj x - ∑ j ∈ range P.nc, σ j * P.sx x j) :
    ∃ y, (∀ j < P.nc, if P.dual.eq j then P.dual.row j y = P.dual.b j - σ j
                        else P.dual.row j y ≤ P.dual.b j - σ j) ∧
      (∀ i < P.augNr, leUb (y i) (P.dual.ub i)) ∧
      γ ≤ ∑ i ∈ range P.augNr, P.augB i * y i := by
  set t : ℕ → K := fun j => if P.isNeg j then - σ j else σ j with ht
  set P' : LinProg K := { P with c := fun j => P.c j - t j } with hP'
  have hobj : ∀ x, P'.obj x = P.obj x - ∑ j ∈ range P.nc, σ j * P.sx x j := by
    intro x
    show ∑ j ∈ range P.nc, (P.c j - t j) * x j = ∑ j ∈ range P.nc, P.c j * x j - _
    rw [← Finset.sum_sub_distrib]
    apply Finset.sum_congr rfl
    intro j _
    simp only [ht, sx]
    split_ifs <;> ring
  obtain ⟨x0, hx0⟩ := hfeas
  obtain ⟨y, hy, hval⟩ := dual_strong P' γ ⟨x0, ⟨hx0.rows, hx0.ubs, hx0.lbs⟩⟩
    (fun x hx => by rw [hobj]; exact hbd x ⟨hx.rows, hx.ubs, hx.lbs⟩)
  refine ⟨y, ?_, ?_, ?_⟩
  · intro j hj
    have h := hy.rows j hj
    have hb : P'.dual.b j = P.dual.b j - σ j := by
      show (if P.isNeg j then - (P.c j - t j) else P.c j - t j)
        = (if P.isNeg j then - P.c j else P.c j) - σ j
      simp only [ht]
      split_ifs <;> ring
    rw [hb] at h
    exact h
  · intro i hi
    exact hy.ubs i hi
  · have e : - P'.dual.obj y = ∑ i ∈ range P.augNr, P.augB i * y i := by
      show - ∑ i ∈ range P.augNr, (- P.augB i) * y i = _
      rw [← Finset.sum_neg_distrib]
      apply Finset.sum_congr rfl; intro i _; ring
    rw [← e]
    exact hval

end LinProg

namespace ConeProg

/-- contribution of the cone multipliers `w` (indexed by the positions of `P.eye`) to dual row `j` -/
def rowSlack (P : ConeProg ℝ) (w : ℕ → ℝ) (j : ℕ) : ℝ :=
  ∑ k ∈ range P.eye.length,
    (if P.eye.getD k P.lp.nc = j ∧ k < P.eye.length then (1 : ℝ) else 0) * w k

lemma eye_getD_lt (P : ConeProg ℝ) (hwf : P.WF) (k : ℕ) (hk : k < P.eye.length) :
    P.eye.getD k P.lp.nc < P.lp.nc := by
  have hmem : P.eye.getD k P.lp.nc ∈ P.eye := getD_mem' P.eye k hk _
  rw [eye, List.mem_flatten] at hmem
  obtain ⟨q, hq, hjq⟩ := hmem
  exact hwf.qlt q hq _ hjq

lemma rowSlack_pair (P : ConeProg ℝ) (hwf : P.WF) (w x : ℕ → ℝ) :
    ∑ j ∈ range P.lp.nc, P.rowSlack w j * P.lp.sx x j
      = ∑ k ∈ range P.eye.length, w k * P.lp.sx x (P.eye.getD k P.lp.nc) := by
  simp only [rowSlack, Finset.sum_mul]
  rw [Finset.sum_comm]
  apply Finset.sum_congr rfl; intro k hk
  have hk' : k < P.eye.length := Finset.mem_range.mp hk
  have hlt := eye_getD_lt P hwf k hk'
  rw [Finset.sum_eq_single (P.eye.getD k P.lp.nc)]
  · simp only [hk', and_self, if_true, one_mul]
  · intro j _ hj; simp only [Ne.symm hj, false_and, if_false, zero_mul]
  · intro hn; exact absurd (Finset.mem_range.mpr hlt) hn

lemma rowSlack_not_mem (P : ConeProg ℝ) (w : ℕ → ℝ) (j : ℕ) (hj : j ∉ P.eye) :
    P.rowSlack w j = 0 := by
  unfold rowSlack
  apply Finset.sum_eq_zero
  intro k hk
  have hk' : k < P.eye.length := Finset.mem_range.mp hk
  have : ¬ (P.eye.getD k P.lp.nc = j ∧ k < P.eye.length) := by
    rintro ⟨h, _⟩
    exact hj (h ▸ getD_mem' P.eye k hk' _)
  rw [if_neg this, zero_mul]

lemma rowSlack_nodup (P : ConeProg ℝ) (hnd : P.eye.Nodup) (w : ℕ → ℝ) (k : ℕ)
    (hk : k < P.eye.length) : P.rowSlack w (P.eye.getD k P.lp.nc) = w k := by
  unfold rowSlack
  rw [Finset.sum_eq_single k]
  · simp [hk]
  · intro k' hk' hne
    have hk'' : k' < P.eye.length := Finset.mem_range.mp hk'
    have : ¬ (P.eye.getD k' P.lp.nc = P.eye.getD k P.lp.nc ∧ k' < P.eye.length) := by
      rintro ⟨h, _⟩
      rw [List.getD_eq_getElem _ _ hk'', List.getD_eq_getElem _ _ hk] at h
      exact hne ((List.Nodup.getElem_inj_iff hnd).mp h)
    rw [if_neg this, zero_mul]
  · intro hn; exact absurd (Finset.mem_range.mpr hk) hn

/-! ### No cones -/

/-- strong duality when there are no cones at all -/
theorem lpDual_attain (P : ConeProg ℝ) (E : ℝ → ℝ → ℝ → Prop) (st : ℕ → ℕ → Bool)
    (γ : ℝ) (hfeas : ∃ x, P.lp.Feas x) (hbd : ∀ x, P.lp.Feas x → γ ≤ P.lp.obj x) :
    ∃ y, ConeProg.Feas { lp := P.lp.dual, st := st, qmat := [], xmat := [] } E y ∧
      γ ≤ - P.lp.dual.obj y := by
  obtain ⟨y, hy, hval⟩ := LinProg.dual_strong P.lp γ hfeas hbd
  exact ⟨y, ⟨hy, by intro q hq; simp at hq, by intro e he; simp at he⟩, hval⟩

/-! ### The general layout -/

/-- the point of the general layout assembled from LP multipliers `y` and cone multipliers `w` -/
def asm2 (P : ConeProg ℝ) (y w : ℕ → ℝ) : ℕ → ℝ :=
  fun i => if i < P.lp.dual.nc then y i else w (i - P.lp.dual.nc)

theorem socDual2_attain (P : ConeProg ℝ) (E : ℝ → ℝ → ℝ → Prop)
    (w : ℕ → ℝ) (hw : ∀ b ∈ qBlocks P.qmat 0, socMem w b) (y : ℕ → ℝ)
    (hrow : ∀ j < P.lp.nc, if P.lp.dual.eq j then P.lp.dual.row j y = P.lp.dual.b j - P.rowSlack w j
                        else P.lp.dual.row j y ≤ P.lp.dual.b j - P.rowSlack w j)
    (hub : ∀ i < P.lp.augNr, LinProg.leUb (y i) (P.lp.dual.ub i)) :
    P.socDual2.Feas E (P.asm2 y w) ∧
      - P.socDual2.lp.obj (P.asm2 y w) = ∑ i ∈ range P.lp.augNr, P.lp.augB i * y i := by
  have hv1 : ∀ i < P.lp.dual.nc, P.asm2 y w i = y i := by
    intro i hi; simp only [asm2, hi, if_true]
  have hv2 : ∀ k, P.asm2 y w (P.lp.dual.nc + k) = w k := by
    intro k
    have : ¬ (P.lp.dual.nc + k < P.lp.dual.nc) := by omega
    simp only [asm2, this, if_false, Nat.add_sub_cancel_left]
  have hrow_split : ∀ j, P.socDual2.lp.row j (P.asm2 y w) = P.lp.dual.row j y + P.rowSlack w j := by
    intro j
    simp only [socDual2, LinProg.row, rowSlack]
    rw [Finset.sum_range_add]
    congr 1
    · apply Finset.sum_congr rfl; intro i hi
      have : i < P.lp.dual.nc := Finset.mem_range.mp hi
      rw [if_pos this, hv1 i this]
    · apply Finset.sum_congr rfl; intro k hk
      have : ¬ (P.lp.dual.nc + k < P.lp.dual.nc) := by omega
      rw [if_neg this, hv2, Nat.add_sub_cancel_left]
  refine ⟨⟨⟨?_, ?_, ?_⟩, ?_, ?_⟩, ?_⟩
  · intro j hj
    have hj' : j < P.lp.nc := hj
    have h := hrow j hj'
    rw [hrow_split]
    have heq : P.socDual2.lp.eq j = P.lp.dual.eq j := rfl
    have hb : P.socDual2.lp.b j = P.lp.dual.b j := rfl
    rw [heq, hb]
    split_ifs at h ⊢ with hh
    · linarith
    · linarith
  · intro i hi
    show LinProg.leUb (P.asm2 y w i) (if i < P.lp.dual.nc then P.lp.dual.ub i else none)
    by_cases h : i < P.lp.dual.nc
    · rw [if_pos h, hv1 i h]; exact hub i h
    · rw [if_neg h]; trivial
  · intro i hi
    show LinProg.geLb (P.asm2 y w i)
      (if i < P.lp.dual.nc then P.lp.dual.lb i else P.extraLb (i - P.lp.dual.nc))
    by_cases h : i < P.lp.dual.nc
    · rw [if_pos h]; trivial
    · rw [if_neg h]
      have hi' : i < P.lp.dual.nc + P.eye.length := hi
      unfold extraLb
      by_cases hc : (headPos P.qmat 0).contains (i - P.lp.dual.nc) = true
      · rw [if_pos hc]
        have e : i = P.lp.dual.nc + (i - P.lp.dual.nc) := by omega
        rw [e, hv2]
        show (0 : ℝ) ≤ w (i - P.lp.dual.nc)
        apply headPos_nonneg w P.qmat 0 hw
        · simpa using hc
        · show i - P.lp.dual.nc < 0 + P.eye.length
          omega
      · rw [if_neg hc]; trivial
  · intro b hb
    have hb' : b ∈ qBlocks P.qmat (0 + P.lp.dual.nc) := by
      rw [Nat.zero_add]; exact hb
    rw [qBlocks_shift, List.mem_map] at hb'
    obtain ⟨b0, hb0, rfl⟩ := hb'
    rw [socMem_map]
    refine (socMem_congr _ w b0 ?_).mpr (hw b0 hb0)
    intro i _
    rw [Nat.add_comm, hv2]
  · intro e he
    have : P.socDual2.xmat = [] := rfl
    rw [this] at he; simp at he
  · simp only [socDual2, LinProg.obj]
    rw [Finset.sum_range_add]
    have h0 : ∑ x ∈ range P.eye.length,
        (if P.lp.dual.nc + x < P.lp.dual.nc then P.lp.dual.c (P.lp.dual.nc + x) else 0)
          * P.asm2 y w (P.lp.dual.nc + x) = 0 := by
      apply Finset.sum_eq_zero; intro k _; simp
    rw [h0, add_zero, ← Finset.sum_neg_distrib]
    apply Finset.sum_congr rfl; intro i hi
    have : i < P.lp.dual.nc := Finset.mem_range.mp hi
    rw [if_pos this, hv1 i this]
    simp only [LinProg.dual]; ring

/-! ### The compact layout -/

/-- the point of the compact layout: the LP multipliers with the head columns negated -/
def asm1 (P : ConeProg ℝ) (y : ℕ → ℝ) : ℕ → ℝ :=
  fun i => if P.headCols.contains i then - y i else y i

theorem socDual1_attain (P : ConeProg ℝ) (E : ℝ → ℝ → ℝ → Prop) (hwf : P.WF)
    (hok : P.compactOk = true) (hc : ∀ q ∈ P.qmat, ∀ j ∈ q, P.lp.c j = 0)
    (htail : ∀ q ∈ P.qmat, ∀ j ∈ q.tail, P.lp.isFree j = true)
    (w : ℕ → ℝ) (hw : ∀ b ∈ qBlocks P.qmat 0, socMem w b) (y : ℕ → ℝ)
    (hrow : ∀ j < P.lp.nc, if P.lp.dual.eq j then P.lp.dual.row j y = P.lp.dual.b j - P.rowSlack w j
                        else P.lp.dual.row j y ≤ P.lp.dual.b j - P.rowSlack w j)
    (hub : ∀ i < P.lp.augNr, LinProg.leUb (y i) (P.lp.dual.ub i)) :
    P.socDual1.Feas E (P.asm1 y) ∧
      - P.socDual1.lp.obj (P.asm1 y) = ∑ i ∈ range P.lp.augNr, P.lp.augB i * y i := by
  simp only [compactOk, Bool.and_eq_true, List.all_eq_true, beq_iff_eq, decide_eq_true_eq] at hok
  obtain ⟨⟨⟨⟨h1, h2⟩, _⟩, h4⟩, h5⟩ := hok
  set iof : ℕ → ℕ := fun j => (P.rowStored j).headD 0 with hiof
  set σ : ℕ → ℝ := P.rowSlack w with hσ
  have hrs : ∀ j ∈ P.eye, P.rowStored j = [iof j] := by
    intro j hj
    obtain ⟨v, hv⟩ := List.length_eq_one_iff.mp (h1 j hj)
    simp only [hiof, hv, List.headD_cons]
  have hmemeye : ∀ q ∈ P.qmat, ∀ j ∈ q, j ∈ P.eye := by
    intro q hq j hj; exact List.mem_flatten.mpr ⟨q, hq, hj⟩
  have heyelt : ∀ j ∈ P.eye, j < P.lp.nc := by
    intro j hj
    obtain ⟨q, hq, hjq⟩ := List.mem_flatten.mp hj
    exact hwf.qlt q hq j hjq
  -- the slack is in the cones of the primal index lists
  have hσsoc : ∀ q ∈ P.qmat, socMem σ q := by
    have hv : ∀ k < P.qmat.flatten.length, w (0 + k) = σ (P.qmat.flatten.getD k 0) := by
      intro k hk
      have hk' : k < P.eye.length := hk
      rw [Nat.zero_add]
      show w k = P.rowSlack w (P.eye.getD k 0)
      rw [getD_irrel P.eye k hk' 0 P.lp.nc, rowSlack_nodup P h2 w k hk']
    exact (qBlocks_socMem_iff σ P.qmat 0 w hv).mp hw
  -- rows of the eliminated cone columns
  have hrowE : ∀ j ∈ P.eye, if P.lp.dual.eq j then P.lp.dual.a j (iof j) * y (iof j) = - σ j
      else P.lp.dual.a j (iof j) * y (iof j) ≤ - σ j := by
    intro j hj
    have h := hrow j (heyelt j hj)
    obtain ⟨q, hq, hjq⟩ := List.mem_flatten.mp hj
    have hb : P.lp.dual.b j = 0 := by
      show (if P.lp.isNeg j then - P.lp.c j else P.lp.c j) = 0
      rw [hc q hq j hjq]; simp
    rw [dual_row_single P hwf j (iof j) (hrs j hj), hb, zero_sub] at h
    exact h
  have hflipHead : ∀ q ∈ P.qmat, ∀ a T, q = a :: T → P.headCols.contains (iof a) = true := by
    intro q hq a T hqe
    simp only [List.contains_iff_mem, headCols, List.mem_flatMap]
    refine ⟨q, hq, ?_⟩
    rw [hqe]
    simp only [hrs a (hmemeye q hq a (by rw [hqe]; simp))]; simp
  -- the head multipliers dominate the head slacks
  have hheadv : ∀ q ∈ P.qmat, ∀ a T, q = a :: T → σ a ≤ - y (iof a) := by
    intro q hq a T hqe
    have haeye : a ∈ P.eye := hmemeye q hq a (by rw [hqe]; simp)
    have ha1 : P.lp.dual.a a (iof a) = 1 := by
      have := h5 q hq
      rw [hqe] at this
      exact of_decide_eq_true this
    have h := hrowE a haeye
    rw [ha1, one_mul] at h
    split_ifs at h <;> linarith
  have hy2 : ∀ i, P.asm1 y i ^ 2 = y i ^ 2 := by
    intro i; simp only [asm1]; split_ifs <;> ring
  have hunflip : ∀ i, (if P.headCols.contains i then - P.asm1 y i else P.asm1 y i) = y i := by
    intro i; simp only [asm1]; split_ifs <;> ring
  have hrowS : ∀ r, P.socDual1.lp.row r (P.asm1 y) = P.lp.dual.row (P.linIdx.getD r 0) y := by
    intro r
    show ∑ i ∈ range P.lp.dual.nc, (if P.headCols.contains i then - P.lp.dual.a (P.linIdx.getD r 0) i
        else P.lp.dual.a (P.linIdx.getD r 0) i) * P.asm1 y i
      = ∑ i ∈ range P.lp.dual.nc, P.lp.dual.a (P.linIdx.getD r 0) i * y i
    apply Finset.sum_congr rfl; intro i _
    rw [← hunflip i]
    split_ifs <;> ring
  refine ⟨⟨⟨?_, ?_, ?_⟩, ?_, ?_⟩, ?_⟩
  · -- rows
    intro r hr
    have hr' : r < P.linIdx.length := hr
    have hmem : P.linIdx.getD r 0 ∈ P.linIdx := getD_mem' P.linIdx r hr' 0
    obtain ⟨hlt, hne⟩ := (mem_linIdx P _).mp hmem
    have h := hrow _ hlt
    rw [show σ (P.linIdx.getD r 0) = 0 from rowSlack_not_mem P w _ hne, sub_zero] at h
    rw [hrowS]
    exact h
  · -- upper bounds
    intro i hi
    show LinProg.leUb (P.asm1 y i) (if P.headCols.contains i then
        (match P.lp.dual.lb i with | none => none | some l => some (-l)) else P.lp.dual.ub i)
    by_cases hf : P.headCols.contains i = true
    · rw [if_pos hf]
      have : P.lp.dual.lb i = none := rfl
      rw [this]; trivial
    · rw [if_neg hf]
      have : P.asm1 y i = y i := by simp only [asm1, hf]; simp
      rw [this]
      exact hub i hi
  · -- lower bounds
    intro i hi
    show LinProg.geLb (P.asm1 y i) (if P.headCols.contains i then some 0 else P.lp.dual.lb i)
    by_cases hf : P.headCols.contains i = true
    · rw [if_pos hf]
      have hv : P.asm1 y i = - y i := by simp only [asm1, hf, if_true]
      rw [hv]
      show (0 : ℝ) ≤ - y i
      -- `i` is the stored row of the head of some cone
      have hf' := hf
      simp only [List.contains_iff_mem, headCols, List.mem_flatMap] at hf'
      obtain ⟨q, hq, hiq⟩ := hf'
      cases q with
      | nil => simp at hiq
      | cons a T =>
        have haeye : a ∈ P.eye := hmemeye _ hq a (by simp)
        simp only [hrs a haeye, List.mem_singleton] at hiq
        have h1' := hheadv _ hq a T rfl
        have h2' := (hσsoc _ hq).1
        rw [hiq]
        linarith
    · rw [if_neg hf]; trivial
  · -- cones
    intro q' hq'
    have hq'' : q' ∈ P.qmat.map (fun q => q.flatMap P.rowStored) := hq'
    rw [List.mem_map] at hq''
    obtain ⟨q, hq, rfl⟩ := hq''
    rw [flatMap_single P.rowStored 0 q (fun j hj => h1 j (hmemeye q hq j hj))]
    show socMem (P.asm1 y) (q.map iof)
    rw [socMem_map]
    cases q with
    | nil => trivial
    | cons a T =>
      obtain ⟨hs0, hs1⟩ := hσsoc _ hq
      have hva : P.asm1 y (iof a) = - y (iof a) := by
        simp only [asm1, hflipHead _ hq a T rfl, if_true]
      have hle := hheadv _ hq a T rfl
      show 0 ≤ P.asm1 y (iof a) ∧
        (T.map fun j => P.asm1 y (iof j) ^ 2).sum ≤ P.asm1 y (iof a) ^ 2
      refine ⟨by rw [hva]; linarith, ?_⟩
      have hsq : (T.map fun j => P.asm1 y (iof j) ^ 2) = (T.map fun j => σ j ^ 2) := by
        apply List.map_congr_left
        intro j hj
        have hje : j ∈ P.eye := hmemeye _ hq j (by simp [hj])
        have hfree : P.lp.dual.eq j = true := htail _ hq j (by simpa using hj)
        have h := hrowE j hje
        rw [if_pos hfree] at h
        rw [hy2]
        rcases h4 j hje with ha | ha
        · rw [ha, one_mul] at h; rw [h]; ring
        · rw [ha] at h
          have : y (iof j) = σ j := by linarith
          rw [this]
      rw [hsq, hva]
      calc (T.map fun j => σ j ^ 2).sum ≤ σ a ^ 2 := hs1
        _ ≤ (- y (iof a)) ^ 2 := pow_le_pow_left₀ hs0 hle 2
  · intro e he
    have : P.socDual1.xmat = [] := rfl
    rw [this] at he; simp at he
  · show - ∑ i ∈ range P.lp.dual.nc, (if P.headCols.contains i then - P.lp.dual.c i
        else P.lp.dual.c i) * P.asm1 y i = _
    rw [← Finset.sum_neg_distrib]
    apply Finset.sum_congr rfl; intro i _
    rw [← hunflip i]
    simp only [LinProg.dual]
    split_ifs <;> ring

/-! ### All layouts -/

/-- **Conic strong duality for `coneDual` (second-order cones, Slater point).**
For a well-formed program without exponential cones that has a feasible point strictly inside
every second-order cone, every lower bound `γ` of the objective over the feasible set is matched
by a feasible point of `coneDual` — whichever layout `socDual` chooses.

Hypotheses for the compact layout only (`P.rowsRemoved = true`): cone columns carry no cost (`hc`,
as in weak duality), and the *tail* columns of the cones carry no sign bound (`htail`; true of the
auxiliary columns rsome creates for norms and squares; without it the compact layout, which
eliminates the dual rows of the cone columns by substitution, can have a gap). -/
theorem coneDual_strong_soc (P : ConeProg ℝ) (E : ℝ → ℝ → ℝ → Prop) (hwf : P.WF)
    (hx : P.xmat = [])
    (hc : P.rowsRemoved = true → ∀ q ∈ P.qmat, ∀ j ∈ q, P.lp.c j = 0)
    (htail : P.rowsRemoved = true → ∀ q ∈ P.qmat, ∀ j ∈ q.tail, P.lp.isFree j = true)
    (x0 : ℕ → ℝ) (hx0 : P.Feas E x0) (hs : ∀ q ∈ P.qmat, socStrict x0 q)
    (γ : ℝ) (hbd : ∀ x, P.Feas E x → γ ≤ P.lp.obj x) :
    ∃ y, P.coneDual.Feas E y ∧ γ ≤ - P.coneDual.lp.obj y := by
  have hcd : P.coneDual = P.socDual := by
    unfold coneDual; rw [if_pos (by rw [hx]; rfl)]
  rw [hcd]
  have hbd' : ∀ x, P.lp.Feas x → (∀ q ∈ P.qmat, socMem x q) → γ ≤ P.lp.obj x := by
    intro x hx1 hx2
    exact hbd x ⟨hx1, hx2, by intro e he; rw [hx] at he; simp at he⟩
  by_cases hq : P.qmat.isEmpty = true
  · have h2 : P.socDual = { lp := P.lp.dual, st := fun j i => P.augSt i j, qmat := [], xmat := [] } := by
      unfold socDual; rw [if_pos hq]
    rw [h2]
    have hqn : P.qmat = [] := List.isEmpty_iff.mp hq
    exact lpDual_attain P E _ γ ⟨x0, hx0.lin⟩
      (fun x hx1 => hbd' x hx1 (by intro q hq'; rw [hqn] at hq'; simp at hq'))
  · obtain ⟨w, hw, hL⟩ := soc_multiplier P hwf x0 hx0.lin hs γ hbd'
    obtain ⟨y, hrow, hub, hval⟩ := LinProg.dual_strong_slack P.lp (P.rowSlack w) γ ⟨x0, hx0.lin⟩
      (fun x hx1 => by rw [rowSlack_pair P hwf]; exact hL x hx1)
    by_cases hok : P.compactOk = true
    · have hrr : P.rowsRemoved = true := by simp [rowsRemoved, hq, hok]
      have h2 : P.socDual = P.socDual1 := by
        unfold socDual; rw [if_neg hq, if_pos hok]
      rw [h2]
      obtain ⟨hf, hobj⟩ := socDual1_attain P E hwf hok (hc hrr) (htail hrr) w hw y hrow hub
      exact ⟨_, hf, by rw [hobj]; exact hval⟩
    · have h2 : P.socDual = P.socDual2 := by
        unfold socDual; rw [if_neg hq, if_neg hok]
      rw [h2]
      obtain ⟨hf, hobj⟩ := socDual2_attain P E w hw y hrow hub
      exact ⟨_, hf, by rw [hobj]; exact hval⟩

end ConeProg

end

end RsomeV
