import RsomeV.L.ConicStrongExpFin
import RsomeV.L.ConicStrongDual

/-! Strong duality (no gap, dual attainment) for the model `ConeProg.coneDual` of
`gcp.Model.do_math(primal=False)` on programs **with exponential cones** (and possibly second-order
cones), under a Slater point.

* `ConeProg.exp_multiplier` : the exponential cones of the program are dualised by
  `exp_lagrange` (the rows, bounds and second-order cones are kept as the convex set `C`); the
  multipliers are one point of the exponential cone per cone of `P.xmat`;
* the multipliers are scattered to the columns (`expScatter`) and absorbed in the cost vector; the
  remaining program has no exponential cones, and `coneDual_strong_soc` yields a feasible point of
  its `socDual` layer (whichever layout is selected);
* `expBlk_scatter` : in row `r` of the dual, the exponential block of `coneDual` contributes exactly
  `expScatter` at the primal column `rowIdx r` carried by that row, so the two pieces assemble
  into a feasible point of `P.coneDual` (`coneDual_strong_exp`). -/

set_option linter.unusedSectionVars false
set_option linter.unusedSimpArgs false
set_option linter.unusedVariables false

namespace RsomeV
open Finset

noncomputable section

namespace ConeProg

/-- the program without its exponential cones -/
def dropExp (P : ConeProg ℝ) : ConeProg ℝ := { P with xmat := [] }

lemma dropExp_socDual (P : ConeProg ℝ) : P.dropExp.socDual = P.socDual := rfl

lemma dropExp_coneDual (P : ConeProg ℝ) : P.dropExp.coneDual = P.socDual := by
  unfold coneDual
  rw [if_pos (by rfl)]
  rfl

/-- the exponential cones of the program hold strictly at `x` -/
def ExpStrictAt (P : ConeProg ℝ) (x : ℕ → ℝ) : Prop :=
  ∀ e ∈ P.xmat, realExpStrict (x (e.getD 0 0)) (x (e.getD 1 0)) (x (e.getD 2 0))

lemma triIdx_lt (P : ConeProg ℝ) (hwf : P.WF) (k p : ℕ) (hk : k < P.xmat.length) (hp : p < 3) :
    triIdx P.xmat k p < P.lp.nc := by
  obtain ⟨h1, h2⟩ := triIdx_mem P.xmat hwf.xlen k p hk hp
  exact hwf.xlt _ h1 _ h2

/-- **Multipliers of the exponential cones under a Slater point.**  If the program has a point
that satisfies rows, bounds and second-order cones and is strictly inside every exponential cone,
and `γ` is a lower bound of the objective on the feasible set, then there are multipliers `u` (one
point of the exponential cone per cone of `P.xmat`) such that `γ` is a lower bound of the objective
minus the scattered multipliers on the set cut out by rows, bounds and second-order cones. -/
theorem exp_multiplier (P : ConeProg ℝ) (hwf : P.WF)
    (x0 : ℕ → ℝ) (hx0 : P.lp.Feas x0) (hq0 : ∀ q ∈ P.qmat, socMem x0 q) (hs : P.ExpStrictAt x0)
    (γ : ℝ) (hbd : ∀ x, P.Feas realExpCone x → γ ≤ P.lp.obj x) :
    ∃ u : ℕ → ℝ,
      (∀ k < P.xmat.length, realExpCone (u (3 * k)) (u (3 * k + 1)) (u (3 * k + 2))) ∧
      ∀ x, P.lp.Feas x → (∀ q ∈ P.qmat, socMem x q) →
        γ ≤ P.lp.obj x - ∑ j ∈ range P.lp.nc, expScatter P.xmat u j * x j := by
  set C : Set (ℕ → ℝ) := {x | P.lp.Feas x ∧ ∀ q ∈ P.qmat, socMem x q} with hC
  have hCconv : Convex ℝ C := by
    rintro x ⟨hx1, hx2⟩ y ⟨hy1, hy2⟩ a b ha hb hab
    refine ⟨P.lp.feas_convex hx1 hy1 ha hb hab, fun q hq => ?_⟩
    rw [socMem_congr (a • x + b • y) (fun i => a * x i + b * y i) q (fun i _ => by simp)]
    exact socMem_comb _ _ q a b ha hb (hx2 q hq) (hy2 q hq)
  have hK : ∀ x : ℕ → ℝ, expReadL P.xmat x ∈ expProd P.xmat.length ↔
      ∀ e ∈ P.xmat, realExpCone (x (e.getD 0 0)) (x (e.getD 1 0)) (x (e.getD 2 0)) :=
    fun x => (expReadL_mem P.xmat x).trans (forall_mem_triIdx P.xmat realExpCone x).symm
  have hKi : ∀ x : ℕ → ℝ, expReadL P.xmat x ∈ expProdStrict P.xmat.length ↔ P.ExpStrictAt x :=
    fun x => (expReadL_mem_strict P.xmat x).trans (forall_mem_triIdx P.xmat realExpStrict x).symm
  obtain ⟨u, hu, hL⟩ := exp_lagrange C hCconv P.xmat.length (expReadL P.xmat) P.lp.objL γ x0
    ⟨hx0, hq0⟩ ((hKi x0).mpr hs)
    (fun x hx hk => hbd x ⟨hx.1, hx.2, (hK x).mp hk⟩)
  refine ⟨u, hu, fun x hx1 hx2 => ?_⟩
  have h := hL x ⟨hx1, hx2⟩
  have e1 : ∑ k ∈ range P.xmat.length, expPairing u (extF (expReadL P.xmat x)) k
      = ∑ k ∈ range P.xmat.length, expPairing u (expRead P.xmat x) k := by
    apply Finset.sum_congr rfl
    intro k hk
    have hk' : k < P.xmat.length := Finset.mem_range.mp hk
    simp only [expPairing]
    rw [extF_expReadL _ _ _ (by omega), extF_expReadL _ _ _ (by omega),
      extF_expReadL _ _ _ (by omega)]
  rw [e1, ← expScatter_pair P.xmat P.lp.nc (fun k hk p hp => triIdx_lt P hwf k p hk hp) u x] at h
  exact h

/-! ### Rows of the dual and primal columns -/

lemma linIdx_nodup (P : ConeProg ℝ) : P.linIdx.Nodup :=
  List.Nodup.filter _ List.nodup_range

/-- row `r` of the dual carries primal column `j` iff `j` is mapped to `r` -/
lemma dualRowOf_eq_iff (P : ConeProg ℝ) (r j : ℕ) (hr : r < P.socDual.lp.nr)
    (hj : P.dualRowOf j < P.socDual.lp.nr) : r = P.dualRowOf j ↔ j = P.rowIdx r := by
  rw [socDual_nr] at hr hj
  by_cases hrr : P.rowsRemoved = true
  · simp only [hrr, if_true] at hr hj
    simp only [dualRowOf, rowIdx, hrr, if_true] at hj ⊢
    constructor
    · intro h
      subst h
      rw [List.getD_eq_getElem _ _ hj]
      exact (List.getElem_idxOf hj).symm
    · intro h
      rw [h, List.getD_eq_getElem _ _ hr]
      exact ((linIdx_nodup P).idxOf_getElem r hr).symm
  · simp only [dualRowOf, rowIdx, hrr]
    exact eq_comm

/-- **the exponential block of `coneDual` is the scatter pattern**: in row `r`, the `3·|xmat|`
block columns weighted by the multipliers `u` contribute `expScatter P.xmat u` at the primal column
carried by row `r` -/
lemma expBlk_scatter (P : ConeProg ℝ) (hwf : P.WF)
    (hxq : P.rowsRemoved = true → ∀ e ∈ P.xmat, ∀ j ∈ e, j ∉ P.eye)
    (u : ℕ → ℝ) (r : ℕ) (hr : r < P.socDual.lp.nr) :
    ∑ i ∈ range (3 * P.xmat.length), P.expBlk r i * u i = expScatter P.xmat u (P.rowIdx r) := by
  rw [sum_range_three]
  unfold expScatter
  apply Finset.sum_congr rfl
  intro k hk
  have hk' : k < P.xmat.length := Finset.mem_range.mp hk
  rw [expBlk_0, expBlk_1, expBlk_2]
  have hiff : ∀ p < 3, (r = P.exRow k p ↔ triIdx P.xmat k p = P.rowIdx r) := by
    intro p hp
    obtain ⟨h1, h2⟩ := triIdx_mem P.xmat hwf.xlen k p hk' hp
    exact dualRowOf_eq_iff P r _ hr (dualRowOf_lt P hwf hxq _ h1 _ h2)
  simp only [hiff 0 (by omega), hiff 1 (by omega), hiff 2 (by omega)]
  split_ifs <;> ring

/-! ### Strong duality -/

/-- **Conic strong duality for `coneDual` with exponential cones (Slater point).**  For a
well-formed program that has a feasible point strictly inside every second-order cone and every
exponential cone, every lower bound `γ` of the objective over the feasible set is matched by a
feasible point of `coneDual` (whichever layout the second-order-cone layer selects, with the
exponential block appended).

Hypotheses for the compact layout only (`P.rowsRemoved = true`): `hc`, `htail` as in
`coneDual_strong_soc`, and `hxq` (no exponential-cone column is a second-order-cone column; same as
in weak duality `coneDual_weak`). -/
theorem coneDual_strong_exp (P : ConeProg ℝ) (hwf : P.WF)
    (hc : P.rowsRemoved = true → ∀ q ∈ P.qmat, ∀ j ∈ q, P.lp.c j = 0)
    (htail : P.rowsRemoved = true → ∀ q ∈ P.qmat, ∀ j ∈ q.tail, P.lp.isFree j = true)
    (hxq : P.rowsRemoved = true → ∀ e ∈ P.xmat, ∀ j ∈ e, j ∉ P.eye)
    (x0 : ℕ → ℝ) (hx0 : P.Feas realExpCone x0) (hs : ∀ q ∈ P.qmat, socStrict x0 q)
    (hxs : P.ExpStrictAt x0)
    (γ : ℝ) (hbd : ∀ x, P.Feas realExpCone x → γ ≤ P.lp.obj x) :
    ∃ y, P.coneDual.Feas realExpCone y ∧ γ ≤ - P.coneDual.lp.obj y := by
  by_cases hxm : P.xmat.isEmpty = true
  · exact coneDual_strong_soc P realExpCone hwf (List.isEmpty_iff.mp hxm) hc htail x0 hx0 hs γ hbd
  obtain ⟨u, hu, hL⟩ := exp_multiplier P hwf x0 hx0.lin hx0.soc hxs γ hbd
  set σ : ℕ → ℝ := expScatter P.xmat u with hσ
  set c' : ℕ → ℝ := fun j => P.lp.c j - σ j with hc'
  set Q : ConeProg ℝ := P.dropExp.withCost c' with hQ
  -- the scattered multipliers vanish off the exponential-cone columns
  have hσ0 : ∀ j, (∀ e ∈ P.xmat, j ∉ e) → σ j = 0 := by
    intro j hj
    apply expScatter_eq_zero
    intro k hk p hp hcon
    obtain ⟨h1, h2⟩ := triIdx_mem P.xmat hwf.xlen k p hk hp
    rw [hcon] at h2
    exact hj _ h1 h2
  have hσneg : ∀ j, P.lp.isNeg j = true → σ j = 0 := by
    intro j hj
    apply hσ0
    intro e he hje
    have := hwf.xnotneg e he j hje
    rw [hj] at this
    exact Bool.noConfusion this
  have hwfQ : Q.WF := ⟨hwf.qlt, by intro e he; simp [hQ, withCost, dropExp] at he,
    by intro e he; simp [hQ, withCost, dropExp] at he,
    by intro e he; simp [hQ, withCost, dropExp] at he, hwf.stcov⟩
  have hfeasQ : ∀ x, P.lp.Feas x → (∀ q ∈ P.qmat, socMem x q) → Q.Feas realExpCone x :=
    fun x h1 h2 => ⟨⟨h1.rows, h1.ubs, h1.lbs⟩, h2, by intro e he; simp [hQ, withCost, dropExp] at he⟩
  have hobjQ : ∀ x, Q.lp.obj x = P.lp.obj x - ∑ j ∈ range P.lp.nc, σ j * x j := by
    intro x
    show ∑ j ∈ range P.lp.nc, (P.lp.c j - σ j) * x j = ∑ j ∈ range P.lp.nc, P.lp.c j * x j - _
    rw [← Finset.sum_sub_distrib]
    apply Finset.sum_congr rfl; intro j _; ring
  have hrrQ : Q.rowsRemoved = P.rowsRemoved := rfl
  obtain ⟨y', hy', hval⟩ := coneDual_strong_soc Q realExpCone hwfQ rfl
    (by
      intro hrr q hq j hj
      rw [hrrQ] at hrr
      show P.lp.c j - σ j = 0
      rw [hc hrr q hq j hj, hσ0 j, sub_zero]
      intro e he hje
      exact hxq hrr e he j hje (List.mem_flatten.mpr ⟨q, hq, hj⟩))
    (by
      intro hrr q hq j hj
      rw [hrrQ] at hrr
      exact htail hrr q hq j hj)
    x0 (hfeasQ x0 hx0.lin hx0.soc) hs γ
    (by
      intro x hx
      rw [hobjQ]
      exact hL x ⟨hx.lin.rows, hx.lin.ubs, hx.lin.lbs⟩ hx.soc)
  -- `Q.coneDual` is `P.socDual` with another right-hand side
  have hQd : Q.coneDual = { P.socDual with lp := { P.socDual.lp with b := P.dropExp.dualRhs c' } } := by
    rw [hQ, coneDual_withCost, dropExp_coneDual]
  rw [hQd] at hy' hval
  set S := P.socDual with hS
  have hb : ∀ r, P.dropExp.dualRhs c' r = S.lp.b r - σ (P.rowIdx r) := by
    intro r
    have h1 : S.lp.b = P.dropExp.dualRhs P.lp.c := by
      have := coneDual_b P.dropExp
      rw [dropExp_coneDual] at this
      exact this
    rw [h1]
    have hri : P.dropExp.rowIdx r = P.rowIdx r := rfl
    have hin : P.dropExp.lp.isNeg = P.lp.isNeg := rfl
    simp only [dualRhs, hri, hin, hc']
    by_cases hn : P.lp.isNeg (P.rowIdx r) = true
    · rw [if_pos hn, if_pos hn, hσneg _ hn]; ring
    · rw [if_neg hn, if_neg hn]
  -- the assembled point
  set n := S.lp.nc with hn
  set v : ℕ → ℝ := fun i => if i < n then y' i else u (i - n) with hv
  have hv1 : ∀ i < n, v i = y' i := by
    intro i hi; simp only [hv, hi, if_true]
  have hv2 : ∀ i, v (n + i) = u i := by
    intro i
    have : ¬ (n + i < n) := by omega
    simp only [hv, this, if_false, Nat.add_sub_cancel_left]
  refine ⟨v, ?_, ?_⟩
  · rw [coneDual_of_xmat P hxm]
    refine ⟨⟨?_, ?_, ?_⟩, ?_, ?_⟩
    · -- rows
      intro r hr
      have hr' : r < S.lp.nr := hr
      have h := hy'.lin.rows r hr'
      have hsplit : ∑ i ∈ range (n + 3 * P.xmat.length),
          (if i < n then S.lp.a r i
            else (if i < n + 3 * P.xmat.length then P.expBlk r (i - n) else 0)) * v i
          = S.lp.row r y' + σ (P.rowIdx r) := by
        have hsc : ∑ i ∈ range (3 * P.xmat.length), P.expBlk r i * u i = σ (P.rowIdx r) :=
          expBlk_scatter P hwf hxq u r hr'
        rw [Finset.sum_range_add, ← hsc]
        congr 1
        · apply Finset.sum_congr rfl; intro i hi
          have hi' : i < n := Finset.mem_range.mp hi
          rw [if_pos hi', hv1 i hi']
        · apply Finset.sum_congr rfl; intro i hi
          have hi' : i < 3 * P.xmat.length := Finset.mem_range.mp hi
          have h1 : ¬ n + i < n := by omega
          have h2 : n + i < n + 3 * P.xmat.length := by omega
          rw [if_neg h1, if_pos h2, Nat.add_sub_cancel_left, hv2]
      have h' : if S.lp.eq r then S.lp.row r y' = S.lp.b r - σ (P.rowIdx r)
          else S.lp.row r y' ≤ S.lp.b r - σ (P.rowIdx r) := by
        rw [← hb r]; exact h
      show if S.lp.eq r then
          ∑ i ∈ range (n + 3 * P.xmat.length),
            (if i < n then S.lp.a r i
              else (if i < n + 3 * P.xmat.length then P.expBlk r (i - n) else 0)) * v i = S.lp.b r
        else
          ∑ i ∈ range (n + 3 * P.xmat.length),
            (if i < n then S.lp.a r i
              else (if i < n + 3 * P.xmat.length then P.expBlk r (i - n) else 0)) * v i ≤ S.lp.b r
      rw [hsplit]
      split_ifs at h' ⊢
      · linarith
      · linarith
    · -- upper bounds
      intro i hi
      show LinProg.leUb (v i) (if i < n then S.lp.ub i else none)
      by_cases h : i < n
      · rw [if_pos h, hv1 i h]; exact hy'.lin.ubs i h
      · rw [if_neg h]; trivial
    · -- lower bounds
      intro i hi
      show LinProg.geLb (v i) (if i < n then S.lp.lb i else none)
      by_cases h : i < n
      · rw [if_pos h, hv1 i h]; exact hy'.lin.lbs i h
      · rw [if_neg h]; trivial
    · -- second-order cones
      intro q hq
      have hq' : q ∈ S.qmat := hq
      refine (socMem_congr v y' q ?_).mpr (hy'.soc q hq')
      intro i hi
      exact hv1 i (socDual_qlt P q hq' i hi)
    · -- exponential cones
      intro e he
      have he' : e ∈ (List.range P.xmat.length).map fun k => [n + 3 * k, n + 3 * k + 1, n + 3 * k + 2] := he
      rw [List.mem_map] at he'
      obtain ⟨k, hk, rfl⟩ := he'
      have hk' : k < P.xmat.length := List.mem_range.mp hk
      show realExpCone (v (n + 3 * k)) (v (n + 3 * k + 1)) (v (n + 3 * k + 2))
      rw [hv2, Nat.add_assoc, hv2, Nat.add_assoc, hv2]
      exact hu k hk'
  · rw [coneDual_of_xmat P hxm]
    show γ ≤ - ∑ i ∈ range (n + 3 * P.xmat.length), (if i < n then S.lp.c i else 0) * v i
    have hobj : ∑ i ∈ range (n + 3 * P.xmat.length), (if i < n then S.lp.c i else 0) * v i
        = S.lp.obj y' := by
      rw [Finset.sum_range_add]
      have h0 : ∑ i ∈ range (3 * P.xmat.length),
          (if n + i < n then S.lp.c (n + i) else 0) * v (n + i) = 0 := by
        apply Finset.sum_eq_zero; intro i _
        have : ¬ n + i < n := by omega
        rw [if_neg this, zero_mul]
      rw [h0, add_zero]
      apply Finset.sum_congr rfl; intro i hi
      have hi' : i < n := Finset.mem_range.mp hi
      rw [if_pos hi', hv1 i hi']
    rw [hobj]
    exact hval

end ConeProg

end

end RsomeV
