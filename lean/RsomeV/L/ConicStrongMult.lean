import RsomeV.L.ConicStrong
import RsomeV.L.ConicStrongSoc

/-! The conic multiplier of a second-order cone program of the development (`ConeProg ℝ`) under a
Slater point: `ConeProg.soc_multiplier`.  The polyhedral part of the program (rows and bounds) is
kept as the convex set `C`; only the second-order cones are dualised here (the polyhedral part is
dualised afterwards by `LinProg.dual_strong`). -/

set_option linter.unusedSectionVars false
set_option linter.unusedSimpArgs false
set_option linter.unusedVariables false

namespace RsomeV
open Finset

namespace LinProg

lemma row_comb (P : LinProg ℝ) (i : ℕ) (x y : ℕ → ℝ) (a b : ℝ) :
    P.row i (a • x + b • y) = a * P.row i x + b * P.row i y := by
  unfold row
  rw [Finset.mul_sum, Finset.mul_sum, ← Finset.sum_add_distrib]
  apply Finset.sum_congr rfl
  intro j _
  simp only [Pi.add_apply, Pi.smul_apply, smul_eq_mul]
  ring

/-- the feasible set of a linear program is convex -/
lemma feas_convex (P : LinProg ℝ) : Convex ℝ {x | P.Feas x} := by
  intro x hx y hy a b ha hb hab
  have hx' : P.Feas x := hx
  have hy' : P.Feas y := hy
  refine ⟨?_, ?_, ?_⟩
  · intro i hi
    have h1 := hx'.rows i hi
    have h2 := hy'.rows i hi
    rw [row_comb]
    by_cases he : P.eq i = true
    · simp only [he, if_true] at h1 h2 ⊢
      rw [h1, h2, ← add_mul, hab, one_mul]
    · simp only [he] at h1 h2 ⊢
      have e1 := mul_le_mul_of_nonneg_left h1 ha
      have e2 := mul_le_mul_of_nonneg_left h2 hb
      have : a * P.b i + b * P.b i = P.b i := by rw [← add_mul, hab, one_mul]
      simpa using (by linarith : a * P.row i x + b * P.row i y ≤ P.b i)
  · intro j hj
    have h1 := hx'.ubs j hj
    have h2 := hy'.ubs j hj
    cases hu : P.ub j with
    | none => trivial
    | some u =>
      rw [hu] at h1 h2
      change x j ≤ u at h1
      change y j ≤ u at h2
      change (a • x + b • y) j ≤ u
      simp only [Pi.add_apply, Pi.smul_apply, smul_eq_mul]
      have e1 := mul_le_mul_of_nonneg_left h1 ha
      have e2 := mul_le_mul_of_nonneg_left h2 hb
      have : a * u + b * u = u := by rw [← add_mul, hab, one_mul]
      linarith
  · intro j hj
    have h1 := hx'.lbs j hj
    have h2 := hy'.lbs j hj
    cases hl : P.lb j with
    | none => trivial
    | some l =>
      rw [hl] at h1 h2
      change l ≤ x j at h1
      change l ≤ y j at h2
      change l ≤ (a • x + b • y) j
      simp only [Pi.add_apply, Pi.smul_apply, smul_eq_mul]
      have e1 := mul_le_mul_of_nonneg_left h1 ha
      have e2 := mul_le_mul_of_nonneg_left h2 hb
      have : a * l + b * l = l := by rw [← add_mul, hab, one_mul]
      linarith

/-- the objective as a linear map -/
noncomputable def objL (P : LinProg ℝ) : (ℕ → ℝ) →ₗ[ℝ] ℝ where
  toFun := P.obj
  map_add' x y := by
    unfold obj
    rw [← Finset.sum_add_distrib]
    apply Finset.sum_congr rfl; intro j _
    simp only [Pi.add_apply]; ring
  map_smul' t x := by
    unfold obj
    simp only [RingHom.id_apply, smul_eq_mul]
    rw [Finset.mul_sum]
    apply Finset.sum_congr rfl; intro j _
    simp only [Pi.smul_apply, smul_eq_mul]; ring

/-- the sign-normalised point read through an index list, as a linear map -/
noncomputable def sxL (P : LinProg ℝ) (e : List ℕ) : (ℕ → ℝ) →ₗ[ℝ] (Fin e.length → ℝ) where
  toFun := fun x k => P.sx x (e.getD k.val P.nc)
  map_add' x y := by
    funext k
    simp only [sx, Pi.add_apply]
    split_ifs <;> ring
  map_smul' t x := by
    funext k
    simp only [sx, Pi.smul_apply, smul_eq_mul, RingHom.id_apply]
    split_ifs <;> ring

end LinProg

lemma socData_sx (P : LinProg ℝ) (x : ℕ → ℝ) (q : List ℕ)
    (hh : ∀ h t, q = h :: t → P.isNeg h = false) : socData (P.sx x) q = socData x q := by
  cases q with
  | nil => rfl
  | cons h t =>
    have h0 : P.sx x h = x h := by
      simp only [LinProg.sx, hh h t rfl]; simp
    have hs : (t.map fun j => P.sx x j ^ 2) = (t.map fun j => x j ^ 2) := by
      apply List.map_congr_left
      intro j _
      simp only [LinProg.sx]; split_ifs <;> ring
    simp only [socData, h0, hs]

namespace ConeProg

/-- a strictly feasible cone has a head that is not sign-flipped -/
lemma head_not_neg (P : ConeProg ℝ) (hwf : P.WF) (x0 : ℕ → ℝ) (hx0 : P.lp.Feas x0)
    (hs : ∀ q ∈ P.qmat, socStrict x0 q) :
    ∀ q ∈ P.qmat, ∀ h t, q = h :: t → P.lp.isNeg h = false := by
  intro q hq h t hqe
  by_contra hn
  have hn' : P.lp.isNeg h = true := by simpa using hn
  have hlt : h < P.lp.nc := hwf.qlt q hq h (by rw [hqe]; simp)
  have h1 := P.lp.isNeg_le_zero x0 hx0 h hlt hn'
  have h2 := hs q hq
  rw [hqe] at h2
  have := h2.1
  linarith

/-- **Conic multiplier under a Slater point.**  If the linear part of `P` has a feasible point
that is strictly inside every second-order cone, and `γ` is a lower bound of the objective on the
feasible set, then there is a vector `w`, indexed by the positions of `P.eye = P.qmat.flatten` and
lying in the product of second-order cones on the consecutive blocks `qBlocks P.qmat 0`, such that
`γ` is a lower bound of the objective minus the pairing of `w` with the (sign-normalised) cone
sub-vectors on the whole *polyhedron* `P.lp.Feas`. -/
theorem soc_multiplier (P : ConeProg ℝ) (hwf : P.WF)
    (x0 : ℕ → ℝ) (hx0 : P.lp.Feas x0) (hs : ∀ q ∈ P.qmat, socStrict x0 q)
    (γ : ℝ) (hbd : ∀ x, P.lp.Feas x → (∀ q ∈ P.qmat, socMem x q) → γ ≤ P.lp.obj x) :
    ∃ w : ℕ → ℝ, (∀ b ∈ qBlocks P.qmat 0, socMem w b) ∧
      ∀ x, P.lp.Feas x →
        γ ≤ P.lp.obj x - ∑ k ∈ range P.eye.length, w k * P.lp.sx x (P.eye.getD k P.lp.nc) := by
  have hhead := head_not_neg P hwf x0 hx0 hs
  have heye : P.qmat.flatten.length = P.eye.length := rfl
  -- reading the cones through `sxL`
  have hv : ∀ x : ℕ → ℝ, ∀ k < P.qmat.flatten.length,
      extF (P.lp.sxL P.eye x) (0 + k) = P.lp.sx x (P.qmat.flatten.getD k 0) := by
    intro x k hk
    rw [Nat.zero_add]
    have : extF (P.lp.sxL P.eye x) k = (P.lp.sxL P.eye x) ⟨k, hk⟩ := extF_val _ ⟨k, hk⟩
    rw [this]
    show P.lp.sx x (P.eye.getD k P.lp.nc) = _
    rw [getD_irrel P.eye k hk P.lp.nc 0]
    rfl
  have hK : ∀ x : ℕ → ℝ, P.lp.sxL P.eye x ∈ prodCone P.qmat P.eye.length ↔
      ∀ q ∈ P.qmat, socMem x q := by
    intro x
    have h1 := qBlocks_socMem_iff (P.lp.sx x) P.qmat 0 (extF (P.lp.sxL P.eye x)) (hv x)
    have h2 : (∀ q ∈ P.qmat, socMem (P.lp.sx x) q) ↔ (∀ q ∈ P.qmat, socMem x q) := by
      apply forall_congr'; intro q
      apply imp_congr_right; intro hq
      exact socMem_of_data_eq (socData_sx P.lp x q (hhead q hq))
    exact h1.trans h2
  have hKi : ∀ x : ℕ → ℝ, P.lp.sxL P.eye x ∈ prodConeStrict P.qmat P.eye.length ↔
      ∀ q ∈ P.qmat, socStrict x q := by
    intro x
    have h1 := qBlocks_socStrict_iff (P.lp.sx x) P.qmat 0 (extF (P.lp.sxL P.eye x)) (hv x)
    have h2 : (∀ q ∈ P.qmat, socStrict (P.lp.sx x) q) ↔ (∀ q ∈ P.qmat, socStrict x q) := by
      apply forall_congr'; intro q
      apply imp_congr_right; intro hq
      exact socStrict_of_data_eq (socData_sx P.lp x q (hhead q hq))
    exact h1.trans h2
  obtain ⟨ψ, hψ, hL⟩ := ConicStrong.conic_lagrange {x | P.lp.Feas x} P.lp.feas_convex
    (P.lp.sxL P.eye) P.lp.objL γ
    (prodCone P.qmat P.eye.length) (prodConeStrict P.qmat P.eye.length)
    (isOpen_prodConeStrict _ _) (prodConeStrict_subset _ _)
    (prodConeStrict_smul _ _) (prodCone_add_strict _ _)
    x0 hx0 ((hKi x0).mpr hs)
    (fun x hx hk => hbd x hx ((hK x).mp hk))
  obtain ⟨w, hw, hrep⟩ := prodCone_dual P.qmat P.eye.length heye ψ hψ
  refine ⟨w, hw, fun x hx => ?_⟩
  have h := hL x hx
  rw [hrep] at h
  have e : ∑ k ∈ range P.eye.length, w k * extF (P.lp.sxL P.eye x) k
      = ∑ k ∈ range P.eye.length, w k * P.lp.sx x (P.eye.getD k P.lp.nc) := by
    apply Finset.sum_congr rfl
    intro k hk
    have hk' : k < P.eye.length := Finset.mem_range.mp hk
    have : extF (P.lp.sxL P.eye x) k = (P.lp.sxL P.eye x) ⟨k, hk'⟩ := extF_val _ ⟨k, hk'⟩
    rw [this]
    rfl
  rw [e] at h
  exact h

end ConeProg
end RsomeV
