import RsomeV.M.RoModel
import RsomeV.L.RobustSound
import RsomeV.L.AtomsSoc
import Mathlib.Tactic.Linarith
import Mathlib.Tactic.Ring

/-! Lemmas for the whole-program model `roModel` (`RsomeV/M/RoModel.lean`): every compiled fragment
is a sub-family of the stacked program (rows, bounds, cones), so a point of the stacked program is
a point of every fragment `le_to_rc` returned. -/

set_option linter.unusedSectionVars false
set_option linter.unusedSimpArgs false
set_option linter.unusedVariables false

namespace RsomeV
open Finset

variable {K : Type} [Field K] [LinearOrder K] [IsStrictOrderedRing K]

/-- the exponential cone (rsome's ordering `expr3·exp(expr1/expr3) ≤ expr2`) is upward closed in
its second argument: what makes the auxiliary row `aux[1] - expr2 <= 0` of
`gcp.Model.do_math` an encoding of `ExpConstr(expr1, expr2, expr3)` -/
def ExpMono (E : K → K → K → Prop) : Prop :=
  ∀ a0 a1 a1' a2 : K, E a0 a1 a2 → a1 ≤ a1' → E a0 a1' a2

/-! ### Rows -/

namespace RoRows

/-- zero-padding does not change the value of a row -/
lemma eval_rebase (R : RoRows K) (cur : ℕ) (h : R.nd ≤ cur) (n : ℕ) (v ζ : ℕ → K) :
    (R.rebase cur).eval n v ζ = R.eval n v ζ := by
  have h1 : ∀ j, ∑ d ∈ range cur, (if d < R.nd then R.Rl n j d else 0) * v d
      = ∑ d ∈ range R.nd, R.Rl n j d * v d := fun j =>
    sum_range_tail_zero R.nd cur h _ (fun d => R.Rl n j d * v d)
      (fun d hd => by rw [if_pos hd]) (fun d hd _ => by rw [if_neg (by omega), zero_mul])
  have h2 : ∑ d ∈ range cur, (if d < R.nd then R.al n d else 0) * v d
      = ∑ d ∈ range R.nd, R.al n d * v d :=
    sum_range_tail_zero R.nd cur h _ (fun d => R.al n d * v d)
      (fun d hd => by rw [if_pos hd]) (fun d hd _ => by rw [if_neg (by omega), zero_mul])
  show (∑ j ∈ range R.nz, ((∑ d ∈ range cur, (if d < R.nd then R.Rl n j d else 0) * v d) + R.Rc n j) * ζ j) +
      ((∑ d ∈ range cur, (if d < R.nd then R.al n d else 0) * v d) + R.ac n) = _
  rw [h2, Finset.sum_congr rfl (fun j _ => by rw [h1 j])]
  rfl

/-- a row reads the decision columns only -/
lemma eval_congr (R : RoRows K) (n : ℕ) (v v' ζ : ℕ → K) (h : ∀ d < R.nd, v d = v' d) :
    R.eval n v ζ = R.eval n v' ζ := by
  have h1 : ∀ j, ∑ d ∈ range R.nd, R.Rl n j d * v d = ∑ d ∈ range R.nd, R.Rl n j d * v' d := fun j =>
    Finset.sum_congr rfl (fun d hd => by rw [h d (Finset.mem_range.mp hd)])
  have h2 : ∑ d ∈ range R.nd, R.al n d * v d = ∑ d ∈ range R.nd, R.al n d * v' d :=
    Finset.sum_congr rfl (fun d hd => by rw [h d (Finset.mem_range.mp hd)])
  unfold eval
  rw [h2, Finset.sum_congr rfl (fun j _ => by rw [h1 j])]

lemma sum_unit_mul (N : ℕ) (p : ℕ) (hp : p < N) (c : K) (x : ℕ → K) :
    ∑ d ∈ range N, (if d = p then c else 0) * x d = c * x p := by
  rw [Finset.sum_eq_single p]
  · rw [if_pos rfl]
  · intro d _ hd; rw [if_neg hd, zero_mul]
  · intro h; exact absurd (Finset.mem_range.mpr hp) h

/-- `vars[0] >= sign*obj` as a `<=`-row -/
lemma eval_epi (R : RoRows K) (s : K) (h0 : 0 < R.nd) (n : ℕ) (v ζ : ℕ → K) :
    (R.epi s).eval n v ζ = s * R.eval n v ζ - v 0 := by
  show (∑ j ∈ range R.nz, ((∑ d ∈ range R.nd, s * R.Rl n j d * v d) + s * R.Rc n j) * ζ j) +
      ((∑ d ∈ range R.nd, (s * R.al n d + (if d = 0 then -1 else 0)) * v d) + s * R.ac n)
    = s * ((∑ j ∈ range R.nz, ((∑ d ∈ range R.nd, R.Rl n j d * v d) + R.Rc n j) * ζ j) +
      ((∑ d ∈ range R.nd, R.al n d * v d) + R.ac n)) - v 0
  have h1 : ∀ j, ((∑ d ∈ range R.nd, s * R.Rl n j d * v d) + s * R.Rc n j) * ζ j
      = s * (((∑ d ∈ range R.nd, R.Rl n j d * v d) + R.Rc n j) * ζ j) := by
    intro j
    have : ∑ d ∈ range R.nd, s * R.Rl n j d * v d = s * ∑ d ∈ range R.nd, R.Rl n j d * v d := by
      rw [Finset.mul_sum]; apply Finset.sum_congr rfl; intro d _; ring
    rw [this]; ring
  have h2 : ∑ d ∈ range R.nd, (s * R.al n d + (if d = 0 then -1 else 0)) * v d
      = s * ∑ d ∈ range R.nd, R.al n d * v d - v 0 := by
    have e : ∀ d, (s * R.al n d + (if d = 0 then (-1 : K) else 0)) * v d
        = s * (R.al n d * v d) + (if d = 0 then (-1 : K) else 0) * v d := fun d => by ring
    rw [Finset.sum_congr rfl (fun d _ => e d), Finset.sum_add_distrib, ← Finset.mul_sum,
      sum_unit_mul R.nd 0 h0 (-1) v]
    ring
  rw [Finset.sum_congr rfl (fun j _ => h1 j), ← Finset.mul_sum, h2]
  ring

/-- the coefficient arrays of a fragment are zero beyond its columns -/
lemma leToRc_a_zero (R : RoRows K) (S : ConeProg K) (i c : ℕ) (hc : R.nd + R.m * S.lp.nc ≤ c) :
    (R.leToRc S).prog.lp.a i c = 0 := by
  have h1 : ¬ c < R.nd := by omega
  have h2 : ¬ (R.nd ≤ c ∧ c < R.nd + R.m * S.lp.nc) := by omega
  simp only [leToRc, h1, h2, if_false, decide_false, Bool.false_eq_true, false_and, ite_self]

/-- a row of a fragment evaluated over more columns -/
lemma leToRc_row_wide (R : RoRows K) (S : ConeProg K) (i N : ℕ) (hN : R.nd + R.m * S.lp.nc ≤ N)
    (x : ℕ → K) :
    ∑ j ∈ range N, (R.leToRc S).prog.lp.a i j * x j = (R.leToRc S).prog.lp.row i x :=
  sum_range_tail_zero (R.nd + R.m * S.lp.nc) N hN _ (fun j => (R.leToRc S).prog.lp.a i j * x j)
    (fun _ _ => rfl) (fun j hj _ => by rw [leToRc_a_zero R S i j hj, zero_mul])

end RoRows

/-! ### Placement -/

lemma le_endCol (cur : ℕ) (items : List (CItem K)) : cur ≤ endCol cur items := by
  induction items generalizing cur with
  | nil => exact le_refl _
  | cons it t ih =>
    cases it with
    | det nr a b eq => exact ih cur
    | bnd b => exact ih cur
    | rob R S => exact le_trans (Nat.le_add_right _ _) (ih _)

/-- every robust block is compiled at some column `c ≥ cur`, and its multipliers lie before the
final column -/
lemma mem_place_rob (nd0 : ℕ) (R : RoRows K) (S : ConeProg K) (items : List (CItem K))
    (h : CItem.rob R S ∈ items) (cur : ℕ) :
    ∃ c, cur ≤ c ∧ c + R.m * S.lp.nc ≤ endCol cur items ∧
      PItem.frag (R.rebase c) S ∈ place nd0 cur items := by
  induction items generalizing cur with
  | nil => simp at h
  | cons it t ih =>
    rcases List.mem_cons.mp h with rfl | h'
    · exact ⟨cur, le_refl _, le_endCol _ t, List.mem_cons_self⟩
    · cases it with
      | det nr a b eq =>
        obtain ⟨c, h1, h2, h3⟩ := ih h' cur
        exact ⟨c, h1, h2, List.mem_cons_of_mem _ h3⟩
      | bnd b =>
        obtain ⟨c, h1, h2, h3⟩ := ih h' cur
        exact ⟨c, h1, h2, List.mem_cons_of_mem _ h3⟩
      | rob R' S' =>
        obtain ⟨c, h1, h2, h3⟩ := ih h' (cur + R'.m * S'.lp.nc)
        exact ⟨c, le_trans (Nat.le_add_right _ _) h1, h2, List.mem_cons_of_mem _ h3⟩

lemma mem_place_det (nd0 : ℕ) (nr : ℕ) (a : ℕ → ℕ → K) (b : ℕ → K) (eq : ℕ → Bool)
    (items : List (CItem K)) (h : CItem.det nr a b eq ∈ items) (cur : ℕ) :
    PItem.det nr (fun i c => if c < nd0 then a i c else 0) b eq ∈ place nd0 cur items := by
  induction items generalizing cur with
  | nil => simp at h
  | cons it t ih =>
    rcases List.mem_cons.mp h with rfl | h'
    · exact List.mem_cons_self
    · cases it with
      | det nr' a' b' eq' => exact List.mem_cons_of_mem _ (ih h' cur)
      | bnd b' => exact List.mem_cons_of_mem _ (ih h' cur)
      | rob R' S' => exact List.mem_cons_of_mem _ (ih h' _)

lemma mem_place_bnd (nd0 : ℕ) (bd : Bound K) (items : List (CItem K)) (cur : ℕ) :
    PItem.bnd bd ∈ place nd0 cur items ↔ CItem.bnd bd ∈ items := by
  induction items generalizing cur with
  | nil => simp [place]
  | cons it t ih =>
    cases it with
    | det nr' a' b' eq' => simp [place, ih cur]
    | bnd b' => simp [place, ih cur]
    | rob R' S' => simp [place, ih (cur + R'.m * S'.lp.nc)]

/-- every placed fragment stems from a robust block, and lies before the final column -/
lemma placed_frag (nd0 : ℕ) (R' : RoRows K) (S : ConeProg K) (items : List (CItem K)) (cur : ℕ)
    (h : PItem.frag R' S ∈ place nd0 cur items) :
    cur ≤ R'.nd ∧ R'.nd + R'.m * S.lp.nc ≤ endCol cur items := by
  induction items generalizing cur with
  | nil => simp [place] at h
  | cons it t ih =>
    cases it with
    | det nr' a' b' eq' =>
      simp only [place, List.mem_cons, reduceCtorEq, false_or] at h
      exact ih cur h
    | bnd b' =>
      simp only [place, List.mem_cons, reduceCtorEq, false_or] at h
      exact ih cur h
    | rob R₀ S₀ =>
      simp only [place, List.mem_cons] at h
      rcases h with h | h
      · injection h with hR hS
        subst hR; subst hS
        exact ⟨le_refl _, le_endCol _ t⟩
      · obtain ⟨h1, h2⟩ := ih _ h
        exact ⟨le_trans (Nat.le_add_right _ _) h1, h2⟩

/-! ### The stacked program -/

/-- a stacked row holds at `x` (over `N` columns) -/
def PRow.ok (r : PRow K) (N : ℕ) (x : ℕ → K) : Prop :=
  if r.eq then ∑ j ∈ range N, r.a j * x j = r.b else ∑ j ∈ range N, r.a j * x j ≤ r.b

section assemble
variable (base : ℕ) (P : List (PItem K)) (objRow : List (PRow K)) (E : K → K → K → Prop) (x : ℕ → K)

lemma assemble_nc : (assemble base P objRow).lp.nc = base + 3 * (asmX P).length := rfl

/-- every stacked row holds at a point of the program -/
lemma assemble_rows (hx : (assemble base P objRow).Feas E x) (r : PRow K)
    (hr : r ∈ asmRows0 base P objRow) : r.ok (base + 3 * (asmX P).length) x := by
  have hne : (asmRows0 base P objRow).isEmpty = false := by
    cases h : asmRows0 base P objRow with
    | nil => rw [h] at hr; simp at hr
    | cons _ _ => rfl
  have hrows : asmRows base P objRow = asmRows0 base P objRow := by
    unfold asmRows; rw [hne]; rfl
  obtain ⟨i, hi, rfl⟩ := List.getElem_of_mem hr
  have h := hx.lin.rows i (by show i < (asmRows base P objRow).length; rw [hrows]; exact hi)
  have e : (asmRows base P objRow).getD i default = (asmRows0 base P objRow)[i] := by
    rw [hrows, List.getD_eq_getElem _ _ hi]
  show if ((asmRows0 base P objRow)[i]).eq then _ else _
  rw [← e]
  exact h

/-- every `Bounds` entry holds at a point of the program -/
lemma assemble_bounds (hx : (assemble base P objRow).Feas E x)
    (hc : ∀ b ∈ asmBounds P, b.Consistent)
    (hN : ∀ b ∈ asmBounds P, ∀ p ∈ b.entries, p.1 < base + 3 * (asmX P).length) :
    ∀ b ∈ asmBounds P, ∀ p ∈ b.entries, if b.upper then x p.1 ≤ p.2 else p.2 ≤ x p.1 :=
  (foldBounds_feas_iff (asmBounds P) hc _ hN x).mp ⟨hx.lin.ubs, hx.lin.lbs⟩

lemma sum_unit_sub (N p q : ℕ) (hp : p < N) (hq : q < N) (x : ℕ → K) :
    ∑ j ∈ range N, ((if j = p then (1 : K) else 0) - (if j = q then 1 else 0)) * x j = x p - x q := by
  have e : ∀ j, ((if j = p then (1 : K) else 0) - (if j = q then 1 else 0)) * x j
      = (if j = p then (1 : K) else 0) * x j - (if j = q then (1 : K) else 0) * x j := fun j => by ring
  rw [Finset.sum_congr rfl (fun j _ => e j), Finset.sum_sub_distrib,
    RoRows.sum_unit_mul N p hp 1 x, RoRows.sum_unit_mul N q hq 1 x]
  ring

/-- the `k`-th exponential cone constraint holds on the columns it was stated on -/
lemma assemble_exp (hmono : ExpMono E) (hx : (assemble base P objRow).Feas E x)
    (k : ℕ) (hk : k < (asmX P).length)
    (hlt : ∀ t < 3, ((asmX P)[k]).getD t 0 < base + 3 * (asmX P).length) :
    E (x (((asmX P)[k]).getD 0 0)) (x (((asmX P)[k]).getD 1 0)) (x (((asmX P)[k]).getD 2 0)) := by
  set N := base + 3 * (asmX P).length with hN
  have hX : (asmX P).getD k [] = (asmX P)[k] := List.getD_eq_getElem _ _ hk
  -- the cone on the auxiliary columns
  have hcone := hx.exp [base + 3 * k, base + 3 * k + 1, base + 3 * k + 2]
    (List.mem_map.mpr ⟨k, List.mem_range.mpr hk, rfl⟩)
  simp only [List.getD_cons_zero, List.getD_cons_succ] at hcone
  -- the three auxiliary rows
  have hmem : ∀ r ∈ [ (⟨fun j => (if j = base + 3 * k then 1 else 0) - (if j = ((asmX P).getD k []).getD 0 0 then 1 else 0), 0, true⟩ : PRow K),
      ⟨fun j => (if j = base + 3 * k + 1 then 1 else 0) - (if j = ((asmX P).getD k []).getD 1 0 then 1 else 0), 0, false⟩,
      ⟨fun j => (if j = base + 3 * k + 2 then 1 else 0) - (if j = ((asmX P).getD k []).getD 2 0 then 1 else 0), 0, true⟩ ],
      r ∈ asmRows0 base P objRow := by
    intro r hr
    unfold asmRows0
    apply List.mem_append_left
    apply List.mem_append_right
    unfold expRows
    exact List.mem_flatMap.mpr ⟨k, List.mem_range.mpr hk, hr⟩
  have h0 := assemble_rows base P objRow E x hx _ (hmem _ List.mem_cons_self)
  have h1 := assemble_rows base P objRow E x hx _ (hmem _ (List.mem_cons_of_mem _ List.mem_cons_self))
  have h2 := assemble_rows base P objRow E x hx _
    (hmem _ (List.mem_cons_of_mem _ (List.mem_cons_of_mem _ List.mem_cons_self)))
  simp only [PRow.ok, if_true, Bool.false_eq_true, if_false, hX] at h0 h1 h2
  rw [sum_unit_sub N _ _ (by omega) (hlt 0 (by omega)) x] at h0
  rw [sum_unit_sub N _ _ (by omega) (hlt 1 (by omega)) x] at h1
  rw [sum_unit_sub N _ _ (by omega) (hlt 2 (by omega)) x] at h2
  have e0 : x (base + 3 * k) = x (((asmX P)[k]).getD 0 0) := by linarith
  have e2 : x (base + 3 * k + 2) = x (((asmX P)[k]).getD 2 0) := by linarith
  rw [e0, e2] at hcone
  exact hmono _ _ _ _ hcone (by linarith)

/-- **a point of the stacked program is a point of every fragment** -/
theorem frag_feas (hmono : ExpMono E) (hx : (assemble base P objRow).Feas E x)
    (hc : ∀ b ∈ asmBounds P, b.Consistent)
    (hN : ∀ b ∈ asmBounds P, ∀ p ∈ b.entries, p.1 < base + 3 * (asmX P).length)
    (R : RoRows K) (S : ConeProg K) (hmem : PItem.frag R S ∈ P)
    (hle : R.nd + R.m * S.lp.nc ≤ base)
    (hSx : ∀ e ∈ S.xmat, e.length = 3 ∧ ∀ i ∈ e, i < S.lp.nc) :
    (R.leToRc S).prog.Feas E x := by
  set N := base + 3 * (asmX P).length with hNdef
  have hleN : R.nd + R.m * S.lp.nc ≤ N := by omega
  refine ⟨⟨?_, ?_, ?_⟩, ?_, ?_⟩
  · -- rows
    intro i hi
    have hr : (⟨(R.leToRc S).prog.lp.a i, (R.leToRc S).prog.lp.b i, (R.leToRc S).prog.lp.eq i⟩ : PRow K)
        ∈ asmRows0 base P objRow := by
      unfold asmRows0
      apply List.mem_append_left
      apply List.mem_append_left
      refine List.mem_flatMap.mpr ⟨_, hmem, ?_⟩
      exact List.mem_map.mpr ⟨i, List.mem_range.mpr hi, rfl⟩
    have h := assemble_rows base P objRow E x hx _ hr
    simp only [PRow.ok] at h
    rw [RoRows.leToRc_row_wide R S i N hleN x] at h
    exact h
  · -- upper bounds
    intro c hc'
    have hc'' : c < R.nd + R.m * S.lp.nc := hc'
    show LinProg.leUb (x c) (if decide (R.nd ≤ c ∧ c < R.nd + R.m * S.lp.nc) = true ∧
      S.lp.ub ((c - R.nd) % S.lp.nc) = some 0 then some 0 else none)
    split_ifs with hcond
    · obtain ⟨hy, hub⟩ := hcond
      have hy' : R.nd ≤ c ∧ c < R.nd + R.m * S.lp.nc := of_decide_eq_true hy
      have hss : 0 < S.lp.nc := by
        rcases Nat.eq_zero_or_pos S.lp.nc with h0 | h0
        · rw [h0] at hy'; omega
        · exact h0
      have hb := assemble_bounds base P objRow E x hx hc hN
        { upper := true
          entries := (List.range R.m).flatMap fun n =>
            ((List.range S.lp.nc).filter fun i => decide (S.lp.ub i = some 0)).map fun i => (R.ycol S n i, 0) }
        (List.mem_flatMap.mpr ⟨_, hmem, by simp [PItem.bounds, RoRows.rcBounds]⟩) (c, 0)
        (by
          refine List.mem_flatMap.mpr ⟨(c - R.nd) / S.lp.nc, List.mem_range.mpr ?_, ?_⟩
          · apply Nat.div_lt_of_lt_mul
            rw [Nat.mul_comm]; omega
          · refine List.mem_map.mpr ⟨(c - R.nd) % S.lp.nc, List.mem_filter.mpr
              ⟨List.mem_range.mpr (Nat.mod_lt _ hss), decide_eq_true hub⟩, ?_⟩
            have := Nat.div_add_mod' (c - R.nd) S.lp.nc
            simp only [RoRows.ycol, Prod.mk.injEq, and_true]
            omega)
      simpa [LinProg.leUb] using hb
    · trivial
  · -- lower bounds
    intro c hc'
    have hc'' : c < R.nd + R.m * S.lp.nc := hc'
    show LinProg.geLb (x c) (if decide (R.nd ≤ c ∧ c < R.nd + R.m * S.lp.nc) = true ∧
      S.lp.lb ((c - R.nd) % S.lp.nc) = some 0 then some 0 else none)
    split_ifs with hcond
    · obtain ⟨hy, hlb⟩ := hcond
      have hy' : R.nd ≤ c ∧ c < R.nd + R.m * S.lp.nc := of_decide_eq_true hy
      have hss : 0 < S.lp.nc := by
        rcases Nat.eq_zero_or_pos S.lp.nc with h0 | h0
        · rw [h0] at hy'; omega
        · exact h0
      have hb := assemble_bounds base P objRow E x hx hc hN
        { upper := false
          entries := (List.range R.m).flatMap fun n =>
            ((List.range S.lp.nc).filter fun i => decide (S.lp.lb i = some 0)).map fun i => (R.ycol S n i, 0) }
        (List.mem_flatMap.mpr ⟨_, hmem, by simp [PItem.bounds, RoRows.rcBounds]⟩) (c, 0)
        (by
          refine List.mem_flatMap.mpr ⟨(c - R.nd) / S.lp.nc, List.mem_range.mpr ?_, ?_⟩
          · apply Nat.div_lt_of_lt_mul
            rw [Nat.mul_comm]; omega
          · refine List.mem_map.mpr ⟨(c - R.nd) % S.lp.nc, List.mem_filter.mpr
              ⟨List.mem_range.mpr (Nat.mod_lt _ hss), decide_eq_true hlb⟩, ?_⟩
            have := Nat.div_add_mod' (c - R.nd) S.lp.nc
            simp only [RoRows.ycol, Prod.mk.injEq, and_true]
            omega)
      simpa [LinProg.geLb] using hb
    · trivial
  · -- second-order cones
    intro q hq
    exact hx.soc q (List.mem_flatMap.mpr ⟨_, hmem, hq⟩)
  · -- exponential cones
    intro e he
    have heX : e ∈ asmX P := List.mem_flatMap.mpr ⟨_, hmem, he⟩
    obtain ⟨k, hk, rfl⟩ := List.getElem_of_mem heX
    apply assemble_exp base P objRow E x hmono hx k hk
    intro t ht
    -- the columns of the cone are multiplier columns of the fragment
    have he' : (asmX P)[k] ∈ (List.range R.m).flatMap fun n =>
        S.xmat.map fun e => e.map fun i => R.ycol S n i := he
    obtain ⟨n, hn, he''⟩ := List.mem_flatMap.mp he'
    obtain ⟨e0, he0, heq⟩ := List.mem_map.mp he''
    obtain ⟨hlen, hlt⟩ := hSx e0 he0
    rw [← heq]
    have ht' : t < (e0.map fun i => R.ycol S n i).length := by rw [List.length_map]; omega
    rw [List.getD_eq_getElem _ _ ht', List.getElem_map]
    have := RoRows.ycol_lt R S n (List.mem_range.mp hn) (e0[t]'(by omega)) (hlt _ (List.getElem_mem _))
    rw [RoRows.leToRc_nc] at this
    omega

end assemble

/-! ### The support's dual form has well-formed exponential cones -/

lemma ConeProg.coneDual_xmat_wf (P : ConeProg K) :
    ∀ e ∈ P.coneDual.xmat, e.length = 3 ∧ ∀ i ∈ e, i < P.coneDual.lp.nc := by
  intro e he
  by_cases hx : P.xmat.isEmpty = true
  · have : P.coneDual = P.socDual := by unfold ConeProg.coneDual; rw [if_pos hx]
    rw [this, ConeProg.socDual_xmat] at he
    simp at he
  · rw [ConeProg.coneDual_of_xmat P hx] at he ⊢
    simp only [List.mem_map, List.mem_range] at he
    obtain ⟨k, hk, rfl⟩ := he
    refine ⟨rfl, ?_⟩
    intro i hi
    simp only [List.mem_cons, List.not_mem_nil, or_false] at hi
    show i < P.socDual.lp.nc + 3 * P.xmat.length
    omega

/-- the `Bounds` objects of a fragment: every value is `0`, every index a multiplier column -/
lemma RoRows.rcBounds_entries (R : RoRows K) (S : ConeProg K) :
    ∀ b ∈ R.rcBounds S, ∀ p ∈ b.entries, p.2 = 0 ∧ p.1 < R.nd + R.m * S.lp.nc := by
  intro b hb p hp
  simp only [RoRows.rcBounds, List.mem_cons, List.not_mem_nil, or_false] at hb
  rcases hb with rfl | rfl
  all_goals
    simp only [List.mem_flatMap, List.mem_map, List.mem_filter, List.mem_range] at hp
    obtain ⟨n, hn, i, ⟨hi, _⟩, rfl⟩ := hp
    exact ⟨rfl, RoRows.ycol_lt R S n hn i hi⟩

lemma RoRows.rcBounds_consistent (R : RoRows K) (S : ConeProg K) :
    ∀ b ∈ R.rcBounds S, b.Consistent := by
  intro b hb p hp q hq _
  rw [(R.rcBounds_entries S b hb p hp).1, (R.rcBounds_entries S b hb q hq).1]

end RsomeV
