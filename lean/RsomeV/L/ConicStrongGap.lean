import RsomeV.L.ConicStrongDual
import Mathlib.Tactic.IntervalCases
import Mathlib.Tactic.NormNum

/-! A program on which the compact layout `socDual1` has a duality gap although a Slater point
exists: the tail column of its cone carries the sign bound `t ≥ 0`.  This shows that the hypothesis
`htail` of `ConeProg.coneDual_strong_soc` cannot be dropped (the general layout `socDual2` needs no
such hypothesis). -/

set_option linter.unusedSectionVars false
set_option linter.unusedSimpArgs false
set_option linter.unusedVariables false

namespace RsomeV.ConicGap
open RsomeV ConeProg Finset

/-- columns `h t z`; rows `h = 1`, `t + z = 0`; bound `t ≥ 0`; cone `[h; t]`; cost `-z` -/
noncomputable def exGap : ConeProg ℝ :=
  { lp := { nr := 2, nc := 3
            a := fun i j => if i = 0 ∧ j = 0 then 1 else if i = 1 ∧ (j = 1 ∨ j = 2) then 1 else 0
            b := fun i => if i = 0 then 1 else 0
            eq := fun _ => true
            ub := fun _ => none
            lb := fun j => if j = 1 then some 0 else none
            c := fun j => if j = 2 then -1 else 0 }
    st := fun i j => decide ((i = 0 ∧ j = 0) ∨ (i = 1 ∧ (j = 1 ∨ j = 2)))
    qmat := [[0, 1]], xmat := [] }

lemma exGap_idxUb : exGap.lp.idxUb = [] := by
  simp [LinProg.idxUb, exGap]
lemma exGap_idxLb : exGap.lp.idxLb = [] := by
  simp [LinProg.idxLb, exGap, List.range_succ]
lemma exGap_idxFx : exGap.lp.idxFx = [] := by
  simp [LinProg.idxFx, exGap]
lemma exGap_augNr : exGap.lp.augNr = 2 := by
  simp [LinProg.augNr, exGap_idxUb, exGap_idxLb, exGap_idxFx]; rfl

lemma exGap_rs (j : ℕ) : exGap.rowStored j = (List.range 2).filter fun i => exGap.st i j := by
  rw [rowStored, exGap_augNr]
  apply List.filter_congr
  intro i hi
  have : i < exGap.lp.nr := List.mem_range.mp hi
  simp only [augSt, this, if_true]

lemma exGap_rs0 : exGap.rowStored 0 = [0] := by
  rw [exGap_rs]; simp [exGap, List.range_succ]
lemma exGap_rs1 : exGap.rowStored 1 = [1] := by
  rw [exGap_rs]; simp [exGap, List.range_succ]

lemma exGap_eye : exGap.eye = [0, 1] := rfl

lemma exGap_dual_a (j i : ℕ) (hi : i < 2) : exGap.lp.dual.a j i = exGap.lp.a i j := by
  have h1 : exGap.lp.isNeg j = false := by simp [LinProg.isNeg, exGap]
  have h2 : i < exGap.lp.nr := hi
  simp only [LinProg.dual, h1, LinProg.augA, h2, if_true]
  simp

lemma exGap_compact : exGap.compactOk = true := by
  have hq : exGap.qmat = [[0, 1]] := rfl
  simp only [compactOk, exGap_eye, hq]
  simp [exGap_rs0, exGap_rs1, exGap_dual_a]
  simp [exGap]

lemma exGap_coneDual : exGap.coneDual = exGap.socDual1 := by
  have h1 : exGap.xmat.isEmpty = true := rfl
  have h2 : ¬ (exGap.qmat.isEmpty = true) := by simp [exGap]
  unfold coneDual socDual
  rw [if_pos h1, if_neg h2, if_pos exGap_compact]

lemma exGap_linIdx : exGap.linIdx = [2] := by
  unfold linIdx
  rw [exGap_eye]
  show (List.range 3).filter _ = _
  decide

lemma exGap_headCols : exGap.headCols = [0] := by
  have hq : exGap.qmat = [[0, 1]] := rfl
  simp [headCols, hq, exGap_rs0]

theorem exGap_dual_le (E : ℝ → ℝ → ℝ → Prop) (y : ℕ → ℝ) (hy : exGap.coneDual.Feas E y) :
    - exGap.coneDual.lp.obj y ≤ -1 := by
  rw [exGap_coneDual] at hy ⊢
  -- the cone on the columns `[0, 1]`
  have hs := hy.soc [0, 1] (by
    have hq : exGap.qmat = [[0, 1]] := rfl
    simp [socDual1, hq, exGap_rs0, exGap_rs1])
  simp [socMem] at hs
  -- row of the column `z`
  have hr := hy.lin.rows 0 (by simp [socDual1, exGap_linIdx])
  simp [socDual1, exGap_linIdx, LinProg.row, exGap_augNr, LinProg.dual, Finset.sum_range_succ,
    exGap_headCols, LinProg.isFree, LinProg.isNeg] at hr
  simp [exGap, LinProg.augA] at hr
  simp [socDual1, LinProg.obj, exGap_augNr, LinProg.dual, Finset.sum_range_succ, exGap_headCols,
    LinProg.augB]
  simp [exGap]
  rw [hr] at hs
  nlinarith [hs.1, hs.2]

lemma exGap_wf : exGap.WF where
  qlt := by
    intro q hq j hj
    simp only [exGap, List.mem_singleton] at hq
    subst hq
    simp only [List.mem_cons, List.not_mem_nil, or_false] at hj
    show j < 3
    omega
  xlen := by intro e he; simp [exGap] at he
  xlt := by intro e he; simp [exGap] at he
  xnotneg := by intro e he; simp [exGap] at he
  stcov := by
    intro i j h
    simp only [exGap] at h ⊢
    by_contra hst
    apply h
    simp only [decide_eq_true_eq] at hst
    split_ifs <;> first | rfl | (exfalso; apply hst; omega)

lemma exGap_row (i : ℕ) (x : ℕ → ℝ) :
    exGap.lp.row i x = if i = 0 then x 0 else if i = 1 then x 1 + x 2 else 0 := by
  simp only [LinProg.row, exGap, Finset.sum_range_succ, Finset.sum_range_zero]
  by_cases h0 : i = 0
  · subst h0; norm_num
  by_cases h1 : i = 1
  · subst h1; norm_num
  · simp [h0, h1]

lemma exGap_feas_iff (E : ℝ → ℝ → ℝ → Prop) (x : ℕ → ℝ) :
    exGap.Feas E x ↔ x 0 = 1 ∧ x 1 + x 2 = 0 ∧ 0 ≤ x 1 ∧ x 1 ^ 2 ≤ x 0 ^ 2 := by
  constructor
  · intro h
    have r0 := h.lin.rows 0 (by show 0 < 2; omega)
    have r1 := h.lin.rows 1 (by show 1 < 2; omega)
    rw [exGap_row] at r0 r1
    simp [exGap] at r0 r1
    have hl := h.lin.lbs 1 (by show 1 < 3; omega)
    simp [exGap, LinProg.geLb] at hl
    have hs := h.soc [0, 1] (by simp [exGap])
    simp [socMem] at hs
    exact ⟨r0, r1, hl, hs.2⟩
  · rintro ⟨h0, h1, h2, h3⟩
    refine ⟨⟨?_, ?_, ?_⟩, ?_, ?_⟩
    · intro i hi
      have hi' : i < 2 := hi
      rw [exGap_row]
      interval_cases i <;> simp [exGap] <;> linarith
    · intro j _; trivial
    · intro j _
      show LinProg.geLb (x j) (if j = 1 then some 0 else none)
      split_ifs with hj
      · subst hj; exact h2
      · trivial
    · intro q hq
      simp only [exGap, List.mem_singleton] at hq
      subst hq
      simp [socMem]
      exact ⟨by rw [h0]; norm_num, h3⟩
    · intro e he; simp [exGap] at he

/-- **The hypothesis `htail` is needed.**  `exGap` (columns `h t z`, rows `h = 1`, `t + z = 0`,
bound `t ≥ 0`, cone `[h; t]`, objective `min -z`) is well-formed, has no exponential cones, zero
cost on its cone columns, a Slater point, and its objective is bounded below by `0` on the feasible
set (the optimum is `0`) — but `coneDual`, which selects the compact layout here, has no feasible
point of value `≥ 0`: every dual-feasible point has value `≤ -1`. -/
theorem compact_needs_free_tails (E : ℝ → ℝ → ℝ → Prop) :
    exGap.WF ∧ exGap.xmat = [] ∧ (∀ q ∈ exGap.qmat, ∀ j ∈ q, exGap.lp.c j = 0) ∧
    (∃ x0, exGap.Feas E x0 ∧ ∀ q ∈ exGap.qmat, socStrict x0 q) ∧
    (∀ x, exGap.Feas E x → 0 ≤ exGap.lp.obj x) ∧
    ¬ ∃ y, exGap.coneDual.Feas E y ∧ 0 ≤ - exGap.coneDual.lp.obj y := by
  refine ⟨exGap_wf, rfl, ?_, ?_, ?_, ?_⟩
  · intro q hq j hj
    simp only [exGap, List.mem_singleton] at hq
    subst hq
    simp only [List.mem_cons, List.not_mem_nil, or_false] at hj
    rcases hj with rfl | rfl <;> simp [exGap]
  · refine ⟨fun j => if j = 0 then 1 else if j = 1 then 1 / 2 else - (1 / 2),
      (exGap_feas_iff E _).mpr ?_, ?_⟩
    · norm_num
    · intro q hq
      simp only [exGap, List.mem_singleton] at hq
      subst hq
      simp [socStrict]; norm_num
  · intro x hx
    obtain ⟨h0, h1, h2, h3⟩ := (exGap_feas_iff E x).mp hx
    simp [LinProg.obj, exGap, Finset.sum_range_succ]
    linarith
  · rintro ⟨y, hy, hv⟩
    have := exGap_dual_le E y hy
    linarith

/-! The same program with a denser stored pattern (explicitly stored zeros): the test `compactOk`
fails, `socDual` selects the general layout, and the gap disappears. -/

/-- `exGap` with every entry of the matrix stored -/
noncomputable def exGap2 : ConeProg ℝ := { exGap with st := fun _ _ => true }

lemma exGap2_augNr : exGap2.lp.augNr = 2 := exGap_augNr

lemma exGap2_rs0 : exGap2.rowStored 0 = [0, 1] := by
  rw [rowStored, exGap2_augNr]
  have : ∀ i ∈ List.range 2, exGap2.augSt i 0 = true := by
    intro i hi
    have : i < exGap2.lp.nr := List.mem_range.mp hi
    simp only [augSt, this, if_true]
    rfl
  rw [List.filter_eq_self.mpr this]
  rfl

lemma exGap2_not_compact : exGap2.rowsRemoved = false := by
  have he : exGap2.eye = [0, 1] := rfl
  have : exGap2.compactOk = false := by
    simp only [compactOk, he]
    simp [exGap2_rs0]
  simp [rowsRemoved, this]

/-- on `exGap2` (general layout) the dual attains the primal optimum `0`: no `htail` needed -/
theorem general_layout_no_gap (E : ℝ → ℝ → ℝ → Prop) :
    ∃ y, exGap2.coneDual.Feas E y ∧ 0 ≤ - exGap2.coneDual.lp.obj y := by
  obtain ⟨hwf, hx, hc, ⟨x0, hx0, hs⟩, hbd, _⟩ := compact_needs_free_tails E
  have hfe : ∀ x, exGap2.Feas E x ↔ exGap.Feas E x := fun x =>
    ⟨fun h => ⟨h.lin, h.soc, h.exp⟩, fun h => ⟨h.lin, h.soc, h.exp⟩⟩
  have hwf2 : exGap2.WF := ⟨hwf.qlt, hwf.xlen, hwf.xlt, hwf.xnotneg, fun _ _ _ => rfl⟩
  exact coneDual_strong_soc exGap2 E hwf2 rfl
    (fun h => by rw [exGap2_not_compact] at h; exact absurd h (by simp))
    (fun h => by rw [exGap2_not_compact] at h; exact absurd h (by simp))
    x0 ((hfe x0).mpr hx0) hs 0 (fun x hx' => hbd x ((hfe x).mp hx'))

end RsomeV.ConicGap
