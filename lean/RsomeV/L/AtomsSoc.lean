import RsomeV.M.AtomsSoc
import RsomeV.L.ConeDualWeak
import Mathlib.Tactic.Linarith
import Mathlib.Tactic.Ring
import Mathlib.Tactic.Positivity
import Mathlib.Algebra.Order.Ring.Abs
import Mathlib.Algebra.Order.BigOperators.Ring.Finset
import Mathlib.Algebra.Order.BigOperators.Group.Finset
import Mathlib.Algebra.BigOperators.Group.Finset.Basic
import Mathlib.Data.List.GetD
import Mathlib.Data.List.Perm.Basic

/-! Helper lemmas for the atom encodings `RsomeV/M/AtomsSoc.lean`: the bound fold, the generic
feasibility characterisation of an `AtomEnc`, and one characterisation per xtype. -/

set_option linter.unusedSectionVars false
set_option linter.unusedSimpArgs false
set_option linter.unusedVariables false

namespace RsomeV
open Finset

variable {K : Type} [Field K] [LinearOrder K] [IsStrictOrderedRing K]

/-! ### Bound folding -/

section Bounds
variable {f : K → K → K}

/-- fold of a list of values with `none` (= infinite) as start: the minimum / maximum of the list -/
def listOp (f : K → K → K) (L : List K) : Option K := L.foldr (fun v acc => optOp f (some v) acc) none

@[simp] lemma optOp_none_left (x : Option K) : optOp f none x = x := rfl
@[simp] lemma optOp_none_right (x : Option K) : optOp f x none = x := by cases x <;> rfl

lemma optOp_assoc (hfa : ∀ a b c, f (f a b) c = f a (f b c)) (x y z : Option K) :
    optOp f (optOp f x y) z = optOp f x (optOp f y z) := by
  cases x <;> cases y <;> cases z <;> simp [optOp, hfa]

lemma optOp_comm (hfc : ∀ a b, f a b = f b a) (x y : Option K) : optOp f x y = optOp f y x := by
  cases x <;> cases y <;> simp [optOp, hfc]

lemma optOp_left_comm (hfa : ∀ a b c, f (f a b) c = f a (f b c)) (hfc : ∀ a b, f a b = f b a)
    (x y z : Option K) : optOp f x (optOp f y z) = optOp f y (optOp f x z) := by
  rw [← optOp_assoc hfa, optOp_comm hfc x y, optOp_assoc hfa]

@[simp] lemma listOp_nil : listOp f [] = none := rfl
@[simp] lemma listOp_cons (a : K) (L : List K) : listOp f (a :: L) = optOp f (some a) (listOp f L) := rfl

lemma listOp_append (hfa : ∀ a b c, f (f a b) c = f a (f b c)) (L₁ L₂ : List K) :
    listOp f (L₁ ++ L₂) = optOp f (listOp f L₁) (listOp f L₂) := by
  induction L₁ with
  | nil => simp
  | cons a L ih => simp [ih, optOp_assoc hfa]

/-- on a list of equal values the fold is the last value (what the fancy assignment keeps) -/
lemma listOp_const (hfi : ∀ a, f a a = a) (L : List K) (h : ∀ v ∈ L, ∀ w ∈ L, v = w) :
    listOp f L = L.getLast? := by
  induction L with
  | nil => simp
  | cons a L ih =>
    have ih' := ih (fun v hv w hw => h v (List.mem_cons_of_mem _ hv) w (List.mem_cons_of_mem _ hw))
    cases L with
    | nil => simp
    | cons c L' =>
      rw [listOp_cons, ih', List.getLast?_cons_cons]
      have hne : (c :: L') ≠ [] := by simp
      obtain ⟨m, hm⟩ : ∃ m, (c :: L').getLast? = some m := ⟨_, List.getLast?_eq_some_getLast hne⟩
      have hmem : m ∈ c :: L' := List.mem_of_getLast? hm
      have : a = m := h a (List.mem_cons_self) m (List.mem_cons_of_mem _ hmem)
      rw [hm, this]; simp [optOp, hfi]

lemma mem_valsFor (l : List (ℕ × K)) (j : ℕ) (v : K) : v ∈ valsFor l j ↔ (j, v) ∈ l := by
  simp only [valsFor, List.mem_map, List.mem_filter, beq_iff_eq]
  constructor
  · rintro ⟨⟨i, x⟩, ⟨hm, hi⟩, hx⟩
    simp only at hi hx; subst hi; subst hx; exact hm
  · intro h; exact ⟨(j, v), ⟨h, rfl⟩, rfl⟩

/-- repeated indices of one `Bounds` object carry equal values (always true for the objects
rsome's comparison operators build: indices are distinct, or the value is one scalar) -/
def Bound.Consistent (b : Bound K) : Prop := ∀ p ∈ b.entries, ∀ q ∈ b.entries, p.1 = q.1 → p.2 = q.2

lemma lastVal_eq_listOp (hfi : ∀ a, f a a = a) (b : Bound K) (hb : b.Consistent) (j : ℕ) :
    lastVal b.entries j = listOp f (valsFor b.entries j) := by
  rw [lastVal, listOp_const hfi]
  intro v hv w hw
  rw [mem_valsFor] at hv hw
  exact hb _ hv _ hw rfl

/-- all upper-bound values given for entry `j`, in order -/
def upVals (bs : List (Bound K)) (j : ℕ) : List K :=
  (bs.filter fun b => b.upper).flatMap fun b => valsFor b.entries j
/-- all lower-bound values given for entry `j`, in order -/
def loVals (bs : List (Bound K)) (j : ℕ) : List K :=
  (bs.filter fun b => !b.upper).flatMap fun b => valsFor b.entries j

lemma mem_upVals (bs : List (Bound K)) (j : ℕ) (v : K) :
    v ∈ upVals bs j ↔ ∃ b ∈ bs, b.upper = true ∧ (j, v) ∈ b.entries := by
  simp only [upVals, List.mem_flatMap, List.mem_filter, mem_valsFor]
  constructor
  · rintro ⟨b, ⟨hb, hu⟩, hm⟩; exact ⟨b, hb, hu, hm⟩
  · rintro ⟨b, hb, hu, hm⟩; exact ⟨b, ⟨hb, hu⟩, hm⟩

lemma mem_loVals (bs : List (Bound K)) (j : ℕ) (v : K) :
    v ∈ loVals bs j ↔ ∃ b ∈ bs, b.upper = false ∧ (j, v) ∈ b.entries := by
  simp only [loVals, List.mem_flatMap, List.mem_filter, mem_valsFor, Bool.not_eq_true']
  constructor
  · rintro ⟨b, ⟨hb, hu⟩, hm⟩; exact ⟨b, hb, hu, hm⟩
  · rintro ⟨b, hb, hu, hm⟩; exact ⟨b, ⟨hb, hu⟩, hm⟩

lemma min_assoc' (a b c : K) : min (min a b) c = min a (min b c) := min_assoc a b c
lemma max_assoc' (a b c : K) : max (max a b) c = max a (max b c) := max_assoc a b c

lemma foldl_applyBound_fst (bs : List (Bound K)) (hc : ∀ b ∈ bs, b.Consistent) (s : BndState K) (j : ℕ) :
    (bs.foldl applyBound s).1 j = optOp min (s.1 j) (listOp min (upVals bs j)) := by
  induction bs generalizing s with
  | nil => simp [upVals]
  | cons b bs ih =>
    rw [List.foldl_cons, ih (fun b' hb' => hc b' (List.mem_cons_of_mem _ hb'))]
    by_cases hb : b.upper = true
    · have h1 : (applyBound s b).1 j = optOp min (lastVal b.entries j) (s.1 j) := by
        simp [applyBound, hb]
      have h2 : upVals (b :: bs) j = valsFor b.entries j ++ upVals bs j := by
        simp [upVals, List.filter_cons, hb]
      rw [h1, h2, listOp_append min_assoc', lastVal_eq_listOp (f := min) min_self b (hc b List.mem_cons_self),
        optOp_comm min_comm (listOp min (valsFor b.entries j)) (s.1 j), optOp_assoc min_assoc']
    · have h1 : (applyBound s b).1 j = s.1 j := by simp [applyBound, hb]
      have h2 : upVals (b :: bs) j = upVals bs j := by simp [upVals, List.filter_cons, hb]
      rw [h1, h2]

lemma foldl_applyBound_snd (bs : List (Bound K)) (hc : ∀ b ∈ bs, b.Consistent) (s : BndState K) (j : ℕ) :
    (bs.foldl applyBound s).2 j = optOp max (s.2 j) (listOp max (loVals bs j)) := by
  induction bs generalizing s with
  | nil => simp [loVals]
  | cons b bs ih =>
    rw [List.foldl_cons, ih (fun b' hb' => hc b' (List.mem_cons_of_mem _ hb'))]
    by_cases hb : b.upper = true
    · have h1 : (applyBound s b).2 j = s.2 j := by simp [applyBound, hb]
      have h2 : loVals (b :: bs) j = loVals bs j := by simp [loVals, List.filter_cons, hb]
      rw [h1, h2]
    · have h1 : (applyBound s b).2 j = optOp max (lastVal b.entries j) (s.2 j) := by
        simp [applyBound, hb]
      have h2 : loVals (b :: bs) j = valsFor b.entries j ++ loVals bs j := by
        simp [loVals, List.filter_cons, hb]
      rw [h1, h2, listOp_append max_assoc', lastVal_eq_listOp (f := max) max_self b (hc b List.mem_cons_self),
        optOp_comm max_comm (listOp max (valsFor b.entries j)) (s.2 j), optOp_assoc max_assoc']

/-- the folded bound vectors are the minimum of all upper values / maximum of all lower values -/
theorem foldBounds_eq (bs : List (Bound K)) (hc : ∀ b ∈ bs, b.Consistent) (j : ℕ) :
    (foldBounds bs).1 j = listOp min (upVals bs j) ∧ (foldBounds bs).2 j = listOp max (loVals bs j) := by
  constructor
  · rw [foldBounds, foldl_applyBound_fst bs hc]; rfl
  · rw [foldBounds, foldl_applyBound_snd bs hc]; rfl

lemma listOp_eq_none_iff (L : List K) : listOp f L = none ↔ L = [] := by
  cases L with
  | nil => simp
  | cons a L => cases h : listOp f L <;> simp [optOp, h]

/-- `listOp min` is the least element of the list -/
lemma listOp_min_spec (L : List K) (m : K) (h : listOp min L = some m) : m ∈ L ∧ ∀ v ∈ L, m ≤ v := by
  induction L generalizing m with
  | nil => simp at h
  | cons a L ih =>
    rw [listOp_cons] at h
    cases hL : listOp min L with
    | none =>
      rw [hL] at h; simp [optOp] at h
      have : L = [] := (listOp_eq_none_iff L).mp hL
      subst this; subst h; simp
    | some m' =>
      rw [hL] at h; simp [optOp] at h
      obtain ⟨hm', hle⟩ := ih m' hL
      subst h
      refine ⟨?_, ?_⟩
      · rcases min_choice a m' with h | h <;> rw [h] <;> simp [hm']
      · intro v hv
        rcases List.mem_cons.mp hv with rfl | hv
        · exact min_le_left _ _
        · exact le_trans (min_le_right _ _) (hle v hv)

/-- `listOp max` is the greatest element of the list -/
lemma listOp_max_spec (L : List K) (m : K) (h : listOp max L = some m) : m ∈ L ∧ ∀ v ∈ L, v ≤ m := by
  induction L generalizing m with
  | nil => simp at h
  | cons a L ih =>
    rw [listOp_cons] at h
    cases hL : listOp max L with
    | none =>
      rw [hL] at h; simp [optOp] at h
      have : L = [] := (listOp_eq_none_iff L).mp hL
      subst this; subst h; simp
    | some m' =>
      rw [hL] at h; simp [optOp] at h
      obtain ⟨hm', hle⟩ := ih m' hL
      subst h
      refine ⟨?_, ?_⟩
      · rcases max_choice a m' with h | h <;> rw [h] <;> simp [hm']
      · intro v hv
        rcases List.mem_cons.mp hv with rfl | hv
        · exact le_max_left _ _
        · exact le_trans (hle v hv) (le_max_right _ _)

lemma leUb_listOp_min (x : K) (L : List K) : LinProg.leUb x (listOp min L) ↔ ∀ v ∈ L, x ≤ v := by
  induction L with
  | nil => simp [LinProg.leUb]
  | cons a L ih =>
    rw [listOp_cons]
    cases hL : listOp min L with
    | none =>
      have : L = [] := (listOp_eq_none_iff L).mp hL
      subst this; simp [optOp, LinProg.leUb]
    | some m =>
      rw [hL] at ih
      simp only [optOp, LinProg.leUb, le_min_iff, List.forall_mem_cons] at ih ⊢
      rw [ih]

lemma geLb_listOp_max (x : K) (L : List K) : LinProg.geLb x (listOp max L) ↔ ∀ v ∈ L, v ≤ x := by
  induction L with
  | nil => simp [LinProg.geLb]
  | cons a L ih =>
    rw [listOp_cons]
    cases hL : listOp max L with
    | none =>
      have : L = [] := (listOp_eq_none_iff L).mp hL
      subst this; simp [optOp, LinProg.geLb]
    | some m =>
      rw [hL] at ih
      simp only [optOp, LinProg.geLb, max_le_iff, List.forall_mem_cons] at ih ⊢
      rw [ih]

/-- a point satisfies the folded bounds iff it satisfies every single given bound -/
theorem foldBounds_feas_iff (bs : List (Bound K)) (hc : ∀ b ∈ bs, b.Consistent) (N : ℕ)
    (hN : ∀ b ∈ bs, ∀ p ∈ b.entries, p.1 < N) (w : ℕ → K) :
    ((∀ j < N, LinProg.leUb (w j) ((foldBounds bs).1 j)) ∧ (∀ j < N, LinProg.geLb (w j) ((foldBounds bs).2 j))) ↔
    ∀ b ∈ bs, ∀ p ∈ b.entries, if b.upper then w p.1 ≤ p.2 else p.2 ≤ w p.1 := by
  constructor
  · rintro ⟨hu, hl⟩ b hb p hp
    have hj := hN b hb p hp
    by_cases hup : b.upper = true
    · rw [if_pos hup]
      have := hu p.1 hj
      rw [(foldBounds_eq bs hc p.1).1, leUb_listOp_min] at this
      exact this p.2 ((mem_upVals bs p.1 p.2).mpr ⟨b, hb, hup, hp⟩)
    · rw [if_neg hup]
      have := hl p.1 hj
      rw [(foldBounds_eq bs hc p.1).2, geLb_listOp_max] at this
      exact this p.2 ((mem_loVals bs p.1 p.2).mpr ⟨b, hb, by simpa using hup, hp⟩)
  · intro h
    constructor
    · intro j _
      rw [(foldBounds_eq bs hc j).1, leUb_listOp_min]
      intro v hv
      obtain ⟨b, hb, hup, hm⟩ := (mem_upVals bs j v).mp hv
      have := h b hb (j, v) hm
      rwa [if_pos hup] at this
    · intro j _
      rw [(foldBounds_eq bs hc j).2, geLb_listOp_max]
      intro v hv
      obtain ⟨b, hb, hup, hm⟩ := (mem_loVals bs j v).mp hv
      have := h b hb (j, v) hm
      rwa [if_neg (by simp [hup])] at this

lemma applyBound_comm (s : BndState K) (x y : Bound K) :
    applyBound (applyBound s x) y = applyBound (applyBound s y) x := by
  unfold applyBound
  by_cases hx : x.upper = true <;> by_cases hy : y.upper = true <;> simp only [hx, hy, if_true, if_false]
  · refine Prod.ext ?_ rfl
    funext j
    exact optOp_left_comm min_assoc' min_comm _ _ _
  · simp
  · simp
  · refine Prod.ext rfl ?_
    funext j
    exact optOp_left_comm max_assoc' max_comm _ _ _

/-- the fold does not depend on the order of the `Bounds` objects (no hypothesis needed) -/
theorem foldBounds_perm' {bs bs' : List (Bound K)} (h : bs.Perm bs') : foldBounds bs = foldBounds bs' :=
  List.Perm.foldl_eq' h (fun x _ y _ z => applyBound_comm z x y) _

end Bounds

/-! ### Generic feasibility of an encoding -/

lemma forall_lt_length_getD {α : Type} [Inhabited α] (l : List α) (P : α → Prop) :
    (∀ i < l.length, P (l.getD i default)) ↔ ∀ a ∈ l, P a := by
  constructor
  · intro h a ha
    obtain ⟨i, hi, rfl⟩ := List.getElem_of_mem ha
    have := h i hi
    rwa [List.getD_eq_getElem _ _ hi] at this
  · intro h i hi
    rw [List.getD_eq_getElem _ _ hi]
    exact h _ (List.getElem_mem hi)

namespace Row
/-- left-hand side of a row at the assignment `w` (`n` user columns, `m` auxiliary columns) -/
def val (ρ : Row K) (n m : ℕ) (w : ℕ → K) : K :=
  ∑ j ∈ range n, ρ.u j * w j + ∑ t ∈ range m, ρ.s t * w (n + t)
/-- the row holds at `w` -/
def ok (ρ : Row K) (n m : ℕ) (w : ℕ → K) : Prop :=
  if ρ.eq then ρ.val n m w = ρ.b else ρ.val n m w ≤ ρ.b
end Row

lemma AtomEnc.prog_row (E : AtomEnc K) (ubs : List (Bound K)) (i : ℕ) (w : ℕ → K) :
    (E.prog ubs).lp.row i w = (E.rows.getD i default).val E.n E.naux w := by
  simp only [LinProg.row, AtomEnc.prog, Row.val]
  rw [Finset.sum_range_add]
  congr 1
  · apply Finset.sum_congr rfl; intro j hj; rw [if_pos (Finset.mem_range.mp hj)]
  · apply Finset.sum_congr rfl; intro t _; rw [if_neg (by omega), Nat.add_sub_cancel_left]

/-- feasibility of the standard form of an encoding, row by row / bound by bound / cone by cone -/
theorem AtomEnc.feas_iff (E : AtomEnc K) (Ex : K → K → K → Prop) (w : ℕ → K)
    (hc : ∀ b ∈ E.bounds, b.Consistent) (hN : ∀ b ∈ E.bounds, ∀ p ∈ b.entries, p.1 < E.n + E.naux) :
    E.prog.Feas Ex w ↔
      (∀ ρ ∈ E.rows, ρ.ok E.n E.naux w) ∧
      (∀ b ∈ E.bounds, ∀ p ∈ b.entries, if b.upper then w p.1 ≤ p.2 else p.2 ≤ w p.1) ∧
      (∀ q ∈ E.qmat, socMem w q) := by
  have hb := foldBounds_feas_iff E.bounds hc (E.n + E.naux) hN w
  constructor
  · intro h
    refine ⟨?_, hb.mp ⟨?_, ?_⟩, h.soc⟩
    · rw [← forall_lt_length_getD]
      intro i hi
      have := h.lin.rows i hi
      rw [AtomEnc.prog_row] at this
      exact this
    · exact h.lin.ubs
    · exact h.lin.lbs
  · rintro ⟨hr, hbd, hq⟩
    obtain ⟨hu, hl⟩ := hb.mpr hbd
    refine ⟨⟨?_, hu, hl⟩, hq, ?_⟩
    · intro i hi
      rw [AtomEnc.prog_row]
      exact (forall_lt_length_getD E.rows (fun ρ => ρ.ok E.n E.naux w)).mpr hr i hi
    · intro e he; simp [AtomEnc.prog] at he

/-! ### Feasibility characterisation per xtype -/

lemma sum_unitAt (i m : ℕ) (c : K) (g : ℕ → K) (hi : i < m) :
    ∑ t ∈ range m, unitAt i c t * g t = c * g i := by
  simp only [unitAt, ite_mul, zero_mul]
  rw [Finset.sum_ite_eq' (range m) i (fun t => c * g t)]
  simp [hi]

lemma list_range_map_sum (r : ℕ) (g : ℕ → K) : ((List.range r).map g).sum = ∑ i ∈ range r, g i := by
  induction r with
  | zero => simp
  | succ r ih => rw [List.range_succ, List.map_append, List.sum_append, ih, Finset.sum_range_succ]; simp

namespace AtomIn
variable (A : AtomIn K) (w : ℕ → K) (i : ℕ)
lemma usum_in : ∑ j ∈ range A.n, (A.k * A.ain i j) * w j = A.k * (A.inv w i - A.bin i) := by
  simp only [inv, add_sub_cancel_right, mul_assoc, Finset.mul_sum]
lemma usum_negin : ∑ j ∈ range A.n, (-(A.k * A.ain i j)) * w j = -(A.k * (A.inv w i - A.bin i)) := by
  simp only [neg_mul, Finset.sum_neg_distrib, usum_in]
lemma usum_out : ∑ j ∈ range A.n, A.aout i j * w j = A.outv w i - A.bout i := by
  simp only [outv, add_sub_cancel_right]
lemma usum_in_out : ∑ j ∈ range A.n, (A.k * A.ain i j + A.aout i j) * w j =
    A.k * (A.inv w i - A.bin i) + (A.outv w i - A.bout i) := by
  simp only [add_mul, Finset.sum_add_distrib, usum_in, usum_out]
lemma usum_negin_out : ∑ j ∈ range A.n, (-(A.k * A.ain i j) + A.aout i j) * w j =
    -(A.k * (A.inv w i - A.bin i)) + (A.outv w i - A.bout i) := by
  simp only [add_mul, Finset.sum_add_distrib, usum_negin, usum_out]
lemma usum_half_out : ∑ j ∈ range A.n, (1/2 * A.aout i j) * w j = 1/2 * (A.outv w i - A.bout i) := by
  simp only [outv, add_sub_cancel_right, mul_assoc, Finset.mul_sum]
lemma usum_neghalf_out : ∑ j ∈ range A.n, (-(1/2 * A.aout i j)) * w j = -(1/2 * (A.outv w i - A.bout i)) := by
  simp only [neg_mul, Finset.sum_neg_distrib, usum_half_out]
end AtomIn

lemma sum_unitAt_w (w : ℕ → K) (n i m : ℕ) (c : K) (hi : i < m) :
    ∑ t ∈ range m, unitAt i c t * w (n + t) = c * w (n + i) :=
  sum_unitAt i m c (fun t => w (n + t)) hi

lemma consistent_const (b : Bound K) (c : K) (h : ∀ p ∈ b.entries, p.2 = c) : b.Consistent :=
  fun p hp q hq _ => (h p hp).trans (h q hq).symm

lemma sum_ind_lt (w : ℕ → K) (n r m : ℕ) (h : r ≤ m) :
    ∑ t ∈ range m, (if t < r then (1 : K) else 0) * w (n + t) = ∑ t ∈ range r, w (n + t) := by
  obtain ⟨d, rfl⟩ := Nat.exists_eq_add_of_le h
  rw [Finset.sum_range_add]
  have h1 : ∑ t ∈ range r, (if t < r then (1 : K) else 0) * w (n + t) = ∑ t ∈ range r, w (n + t) := by
    apply Finset.sum_congr rfl; intro t ht; rw [if_pos (Finset.mem_range.mp ht), one_mul]
  have h2 : ∑ t ∈ range d, (if r + t < r then (1 : K) else 0) * w (n + (r + t)) = 0 := by
    apply Finset.sum_eq_zero; intro t _; rw [if_neg (by omega), zero_mul]
  rw [h1, h2, add_zero]

theorem encE_feas (A : AtomIn K) (Ex : K → K → K → Prop) (w : ℕ → K) :
    (encE A).prog.Feas Ex w ↔
      (∀ i < A.r, w (A.n + i) = A.k * A.inv w i) ∧ A.outv w 0 + w (A.n + A.r) ≤ 0 ∧
      0 ≤ w (A.n + A.r) ∧ ∑ i ∈ range A.r, w (A.n + i) ^ 2 ≤ w (A.n + A.r) ^ 2 := by
  rw [AtomEnc.feas_iff]
  · simp only [encE, AtomEnc.naux, List.forall_mem_append, List.forall_mem_map, List.mem_range,
      List.forall_mem_singleton, List.sum_cons, List.sum_nil, add_zero, Row.ok, Row.val, socMem,
      List.map_map, list_range_map_sum, Function.comp_def, if_true, Bool.false_eq_true, if_false,
      AtomIn.usum_in, AtomIn.usum_out]
    constructor
    · rintro ⟨⟨h1, h2⟩, h3, h4, h5⟩
      simp (disch := omega) only [sum_unitAt_w] at h2
      refine ⟨fun i hi => ?_, by linarith, h4, h5⟩
      have := h1 i hi
      simp (disch := omega) only [sum_unitAt_w] at this
      linarith
    · rintro ⟨h1, h2, h3, h4⟩
      refine ⟨⟨fun i hi => ?_, ?_⟩, h3, h3, h4⟩
      · simp (disch := omega) only [sum_unitAt_w]
        have := h1 i hi
        linarith
      · simp (disch := omega) only [sum_unitAt_w]
        linarith
  · simp only [encE, List.forall_mem_singleton]
    exact consistent_const _ 0 (by simp)
  · simp only [encE, AtomEnc.naux, List.forall_mem_singleton, List.sum_cons, List.sum_nil]
    omega

theorem encA_feas (A : AtomIn K) (Ex : K → K → K → Prop) (w : ℕ → K) :
    (encA A).prog.Feas Ex w ↔
      (∀ i < A.r, A.k * A.inv w i + A.outv w i ≤ 0) ∧ (∀ i < A.r, -(A.k * A.inv w i) + A.outv w i ≤ 0) := by
  rw [AtomEnc.feas_iff]
  · simp only [encA, AtomEnc.naux, List.forall_mem_append, List.forall_mem_map, List.mem_range,
      List.sum_nil, Row.ok, Row.val, Bool.false_eq_true, if_false, Finset.range_zero, Finset.sum_empty,
      add_zero, AtomIn.usum_in_out, AtomIn.usum_negin_out, List.not_mem_nil, false_imp_iff, imp_true_iff,
      forall_const, and_true]
    constructor
    · rintro ⟨h1, h2⟩
      exact ⟨fun i hi => by have := h1 i hi; linarith, fun i hi => by have := h2 i hi; linarith⟩
    · rintro ⟨h1, h2⟩
      exact ⟨fun i hi => by have := h1 i hi; linarith, fun i hi => by have := h2 i hi; linarith⟩
  · simp [encA]
  · simp [encA]

theorem encM_feas (A : AtomIn K) (Ex : K → K → K → Prop) (w : ℕ → K) :
    (encM A).prog.Feas Ex w ↔
      (∀ i < A.r, A.k * A.inv w i ≤ w (A.n + i)) ∧ (∀ i < A.r, -(A.k * A.inv w i) ≤ w (A.n + i)) ∧
      ∑ i ∈ range A.r, w (A.n + i) + A.outv w 0 ≤ 0 := by
  rw [AtomEnc.feas_iff]
  · simp only [encM, AtomEnc.naux, List.forall_mem_append, List.forall_mem_map, List.mem_range,
      List.forall_mem_singleton, List.sum_cons, List.sum_nil, add_zero, Row.ok, Row.val,
      Bool.false_eq_true, if_false, AtomIn.usum_in, AtomIn.usum_negin, AtomIn.usum_out,
      sum_ind_lt w A.n A.r A.r le_rfl, List.not_mem_nil, false_imp_iff, imp_true_iff, forall_const, and_true]
    constructor
    · rintro ⟨⟨h1, h2⟩, h3⟩
      refine ⟨fun i hi => ?_, fun i hi => ?_, by linarith⟩
      · have := h1 i hi
        simp (disch := omega) only [sum_unitAt_w] at this
        linarith
      · have := h2 i hi
        simp (disch := omega) only [sum_unitAt_w] at this
        linarith
    · rintro ⟨h1, h2, h3⟩
      refine ⟨⟨fun i hi => ?_, fun i hi => ?_⟩, by linarith⟩
      · simp (disch := omega) only [sum_unitAt_w]
        have := h1 i hi
        linarith
      · simp (disch := omega) only [sum_unitAt_w]
        have := h2 i hi
        linarith
  · simp [encM]
  · simp [encM]

theorem encI_feas (A : AtomIn K) (Ex : K → K → K → Prop) (w : ℕ → K) :
    (encI A).prog.Feas Ex w ↔
      (∀ i < A.r, A.k * A.inv w i ≤ w A.n) ∧ (∀ i < A.r, -(A.k * A.inv w i) ≤ w A.n) ∧
      w A.n + A.outv w 0 ≤ 0 := by
  rw [AtomEnc.feas_iff]
  · simp only [encI, AtomEnc.naux, List.forall_mem_append, List.forall_mem_map, List.mem_range,
      List.forall_mem_singleton, List.sum_cons, List.sum_nil, add_zero, Row.ok, Row.val,
      Bool.false_eq_true, if_false, AtomIn.usum_in, AtomIn.usum_negin, AtomIn.usum_out,
      List.not_mem_nil, false_imp_iff, imp_true_iff, forall_const, and_true,
      sum_unitAt_w w A.n 0 1 _ Nat.zero_lt_one]
    constructor
    · rintro ⟨⟨h1, h2⟩, h3⟩
      exact ⟨fun i hi => by have := h1 i hi; linarith, fun i hi => by have := h2 i hi; linarith, by linarith⟩
    · rintro ⟨h1, h2, h3⟩
      exact ⟨⟨fun i hi => by have := h1 i hi; linarith, fun i hi => by have := h2 i hi; linarith⟩, by linarith⟩
  · simp [encI]
  · simp [encI]

theorem encS_feas (A : AtomIn K) (Ex : K → K → K → Prop) (w : ℕ → K) :
    (encS A).prog.Feas Ex w ↔
      (∀ i < A.r, w (A.n + i) = 1/2 * (1 + A.outv w i)) ∧
      (∀ i < A.r, w (A.n + (A.r + i)) = A.k * A.inv w i) ∧
      (∀ i < A.r, w (A.n + (A.r + A.r + i)) = 1/2 * (1 - A.outv w i)) ∧
      (∀ i < A.r, 0 ≤ w (A.n + (A.r + A.r + i))) ∧
      (∀ i < A.r, w (A.n + i) ^ 2 + w (A.n + (A.r + i)) ^ 2 ≤ w (A.n + (A.r + A.r + i)) ^ 2) := by
  rw [AtomEnc.feas_iff]
  · simp only [encS, AtomEnc.naux, List.forall_mem_append, List.forall_mem_map, List.mem_range,
      List.forall_mem_singleton, List.sum_cons, List.sum_nil, add_zero, Row.ok, Row.val, socMem,
      List.map_cons, List.map_nil, if_true, Bool.false_eq_true, if_false,
      AtomIn.usum_negin, AtomIn.usum_half_out, AtomIn.usum_neghalf_out]
    constructor
    · rintro ⟨⟨⟨h1, h2⟩, h3⟩, h4, h5⟩
      refine ⟨fun i hi => ?_, fun i hi => ?_, fun i hi => ?_, h4, fun i hi => (h5 i hi).2⟩
      · have := h1 i hi
        simp (disch := omega) only [sum_unitAt_w] at this
        linarith
      · have := h2 i hi
        simp (disch := omega) only [sum_unitAt_w] at this
        linarith
      · have := h3 i hi
        simp (disch := omega) only [sum_unitAt_w] at this
        linarith
    · rintro ⟨h1, h2, h3, h4, h5⟩
      refine ⟨⟨⟨fun i hi => ?_, fun i hi => ?_⟩, fun i hi => ?_⟩, h4, fun i hi => ⟨h4 i hi, h5 i hi⟩⟩
      · simp (disch := omega) only [sum_unitAt_w]
        have := h1 i hi
        linarith
      · simp (disch := omega) only [sum_unitAt_w]
        have := h2 i hi
        linarith
      · simp (disch := omega) only [sum_unitAt_w]
        have := h3 i hi
        linarith
  · simp only [encS, List.forall_mem_singleton]
    exact consistent_const _ 0 (by simp)
  · simp only [encS, AtomEnc.naux, List.forall_mem_singleton, List.sum_cons, List.sum_nil, List.forall_mem_map,
      List.mem_range]
    intro i hi; omega

theorem encQ_feas (A : AtomIn K) (Ex : K → K → K → Prop) (w : ℕ → K) :
    (encQ A).prog.Feas Ex w ↔
      w A.n + 1/2 * w (A.n + (A.r + 2)) = 1/2 ∧
      (∀ i < A.r, w (A.n + (1 + i)) = A.k * A.inv w i) ∧
      w (A.n + (A.r + 1)) - 1/2 * w (A.n + (A.r + 2)) = 1/2 ∧
      w (A.n + (A.r + 2)) + A.outv w 0 ≤ 0 ∧
      0 ≤ w (A.n + (A.r + 1)) ∧
      w A.n ^ 2 + ∑ i ∈ range A.r, w (A.n + (1 + i)) ^ 2 ≤ w (A.n + (A.r + 1)) ^ 2 := by
  rw [AtomEnc.feas_iff]
  · simp only [encQ, AtomEnc.naux, List.forall_mem_append, List.forall_mem_map, List.mem_range,
      List.forall_mem_singleton, List.forall_mem_cons, List.sum_cons, List.sum_nil, add_zero, Row.ok, Row.val, socMem,
      List.map_cons, List.map_map, list_range_map_sum, Function.comp_def, if_true, Bool.false_eq_true, if_false,
      AtomIn.usum_negin, AtomIn.usum_out, zero_mul, Finset.sum_const_zero, zero_add, add_mul, Finset.sum_add_distrib]
    simp (disch := omega) only [sum_unitAt_w, add_zero]
    constructor
    · rintro ⟨⟨⟨h1, h2⟩, h3, h4⟩, h5, _, h6⟩
      refine ⟨by linarith, fun i hi => ?_, by linarith, by linarith, h5, h6⟩
      have := h2 i hi
      simp (disch := omega) only [sum_unitAt_w] at this
      linarith
    · rintro ⟨h1, h2, h3, h4, h5, h6⟩
      refine ⟨⟨⟨by linarith, fun i hi => ?_⟩, by linarith, by linarith⟩, h5, h5, h6⟩
      simp (disch := omega) only [sum_unitAt_w]
      have := h2 i hi
      linarith
  · simp only [encQ, List.forall_mem_singleton]
    exact consistent_const _ 0 (by simp)
  · simp only [encQ, AtomEnc.naux, List.forall_mem_singleton, List.sum_cons, List.sum_nil]
    omega

/-! ### Extending a user assignment by auxiliary values -/

/-- the assignment that is `v` on the `n` user columns and `aux` (offset from `n`) beyond -/
def extend (n : ℕ) (v aux : ℕ → K) : ℕ → K := fun j => if j < n then v j else aux (j - n)

lemma extend_lt (n : ℕ) (v aux : ℕ → K) (j : ℕ) (h : j < n) : extend n v aux j = v j := by
  simp [extend, h]

@[simp] lemma extend_add (n : ℕ) (v aux : ℕ → K) (t : ℕ) : extend n v aux (n + t) = aux t := by
  simp [extend]

@[simp] lemma extend_self (n : ℕ) (v aux : ℕ → K) : extend n v aux n = aux 0 := by
  simp [extend]

lemma AtomIn.inv_congr (A : AtomIn K) (w v : ℕ → K) (h : ∀ j < A.n, w j = v j) (i : ℕ) :
    A.inv w i = A.inv v i := by
  unfold AtomIn.inv
  congr 1
  exact Finset.sum_congr rfl fun j hj => by rw [h j (Finset.mem_range.mp hj)]

lemma AtomIn.outv_congr (A : AtomIn K) (w v : ℕ → K) (h : ∀ j < A.n, w j = v j) (i : ℕ) :
    A.outv w i = A.outv v i := by
  unfold AtomIn.outv
  congr 1
  exact Finset.sum_congr rfl fun j hj => by rw [h j (Finset.mem_range.mp hj)]

@[simp] lemma AtomIn.inv_extend (A : AtomIn K) (v aux : ℕ → K) (i : ℕ) :
    A.inv (extend A.n v aux) i = A.inv v i := A.inv_congr _ _ (fun j hj => extend_lt _ _ _ _ hj) i

@[simp] lemma AtomIn.outv_extend (A : AtomIn K) (v aux : ℕ → K) (i : ℕ) :
    A.outv (extend A.n v aux) i = A.outv v i := A.outv_congr _ _ (fun j hj => extend_lt _ _ _ _ hj) i

/-- value of an affine scalar `a·v + b` on the user columns -/
def affVal (n : ℕ) (a : ℕ → K) (b : K) (v : ℕ → K) : K := ∑ j ∈ range n, a j * v j + b

section Rsocone
variable (n r : ℕ) (ax : ℕ → ℕ → K) (bx : ℕ → K) (ay : ℕ → K) (by_ : K) (az : ℕ → K) (bz : K) (w : ℕ → K)

lemma rso_inv_zero : (rsoconeAtom n r ax bx ay by_ az bz).inv w 0 =
    (affVal n ay by_ w - affVal n az bz w) * (1/2) := by
  simp only [AtomIn.inv, rsoconeAtom, affVal, if_true]
  have : ∀ j, (ay j - az j) * (1/2) * w j = (1/2) * (ay j * w j) - (1/2) * (az j * w j) := by intro j; ring
  simp only [this, Finset.sum_sub_distrib, ← Finset.mul_sum]
  ring

lemma rso_inv_succ (i : ℕ) : (rsoconeAtom n r ax bx ay by_ az bz).inv w (i + 1) =
    affVal n (ax i) (bx i) w := by
  simp [AtomIn.inv, rsoconeAtom, affVal]

lemma rso_outv (i : ℕ) : (rsoconeAtom n r ax bx ay by_ az bz).outv w i =
    -((affVal n ay by_ w + affVal n az bz w) * (1/2)) := by
  simp only [AtomIn.outv, rsoconeAtom, affVal]
  have : ∀ j, -((ay j + az j) * (1/2)) * w j = -((1/2) * (ay j * w j)) - (1/2) * (az j * w j) := by intro j; ring
  simp only [this, Finset.sum_sub_distrib, Finset.sum_neg_distrib, ← Finset.mul_sum]
  ring

/-- the 2-norm inequality of the `rsocone` constraint in terms of `x`, `y`, `z` -/
lemma rso_norm2_iff :
    let A := rsoconeAtom n r ax bx ay by_ az bz
    (A.outv w 0 ≤ 0 ∧ ∑ i ∈ range A.r, (A.k * A.inv w i) ^ 2 ≤ A.outv w 0 ^ 2) ↔
    (0 ≤ affVal n ay by_ w ∧ 0 ≤ affVal n az bz w ∧
      ∑ i ∈ range r, affVal n (ax i) (bx i) w ^ 2 ≤ affVal n ay by_ w * affVal n az bz w) := by
  intro A
  have hr : A.r = r + 1 := rfl
  have hk : A.k = 1 := rfl
  rw [hr, Finset.sum_range_succ', hk]
  simp only [one_mul]
  rw [show A.inv w 0 = _ from rso_inv_zero n r ax bx ay by_ az bz w,
    show A.outv w 0 = _ from rso_outv n r ax bx ay by_ az bz w 0]
  have e : ∑ i ∈ range r, A.inv w (i + 1) ^ 2 = ∑ i ∈ range r, affVal n (ax i) (bx i) w ^ 2 :=
    Finset.sum_congr rfl fun i _ => by
      rw [show A.inv w (i + 1) = _ from rso_inv_succ n r ax bx ay by_ az bz w i]
  rw [e]
  set y := affVal n ay by_ w
  set z := affVal n az bz w
  set S := ∑ i ∈ range r, affVal n (ax i) (bx i) w ^ 2 with hS
  have hS0 : 0 ≤ S := Finset.sum_nonneg fun i _ => sq_nonneg _
  have e2 : (-((y + z) * (1/2))) ^ 2 - ((y - z) * (1/2)) ^ 2 = y * z := by ring
  constructor
  · rintro ⟨h1, h2⟩
    have hyz : S ≤ y * z := by linarith
    have hsum : 0 ≤ y + z := by linarith
    have hy : 0 ≤ y := by
      by_contra hneg
      have hneg := not_le.mp hneg
      have hz : 0 < z := by linarith
      have := mul_neg_of_neg_of_pos hneg hz
      linarith
    have hz : 0 ≤ z := by
      by_contra hneg
      have hneg := not_le.mp hneg
      have hy' : 0 < y := by linarith
      have := mul_neg_of_pos_of_neg hy' hneg
      linarith
    exact ⟨hy, hz, hyz⟩
  · rintro ⟨hy, hz, hyz⟩
    exact ⟨by linarith, by linarith⟩

end Rsocone

end RsomeV
