import RsomeV.L.ConicStrong
import RsomeV.L.ConicStrongExp
import RsomeV.L.ConicStrongFin

/-! Conic Lagrangian duality for products of exponential cones under a Slater point
(`exp_lagrange`: `ConicStrong.conic_lagrange` + `expProd_dual`), the bookkeeping that reads the
triples of a vector through index lists (`expRead`) and scatters the multipliers back to the
coordinates (`expScatter`), and conic strong duality with dual attainment in matrix form over
`Fin n → ℝ` for rows + second-order cones + exponential cones
(`conic_strong_duality_exp_fin`). -/

set_option linter.unusedSectionVars false
set_option linter.unusedSimpArgs false
set_option linter.unusedVariables false

namespace RsomeV
open Finset

noncomputable section

/-- **Lagrange multipliers for exponential-cone constraints under a Slater point.**  `C` convex,
`T` linear into `Fin (3 * m) → ℝ` (the `m` triples that must lie in the exponential cone).  If some
point of `C` is mapped strictly inside every cone and `γ ≤ φ` on `{x ∈ C | T x ∈ expProd m}`,
then there are multipliers `w`, one point of the exponential cone per triple, such that
`γ ≤ φ x - Σ_k pairing (w_k, (T x)_k)` on the whole of `C`. -/
theorem exp_lagrange {E : Type*} [AddCommGroup E] [Module ℝ E] (C : Set E) (hC : Convex ℝ C)
    (m : ℕ) (T : E →ₗ[ℝ] (Fin (3 * m) → ℝ)) (φ : E →ₗ[ℝ] ℝ) (γ : ℝ)
    (x0 : E) (hx0 : x0 ∈ C) (hs : T x0 ∈ expProdStrict m)
    (hbd : ∀ x ∈ C, T x ∈ expProd m → γ ≤ φ x) :
    ∃ w : ℕ → ℝ, (∀ k < m, realExpCone (w (3 * k)) (w (3 * k + 1)) (w (3 * k + 2))) ∧
      ∀ x ∈ C, γ ≤ φ x - ∑ k ∈ range m, expPairing w (extF (T x)) k := by
  obtain ⟨ψ, hψ, hL⟩ := ConicStrong.conic_lagrange C hC T φ γ (expProd m) (expProdStrict m)
    (isOpen_expProdStrict m) (expProdStrict_subset m) (expProdStrict_smul m)
    (expProd_add_strict m) x0 hx0 hs hbd
  obtain ⟨w, hw, hrep⟩ := expProd_dual m ψ hψ
  exact ⟨w, hw, fun x hx => by rw [← hrep]; exact hL x hx⟩

/-! ### Reading triples through index lists, scattering multipliers back -/

/-- the `p`-th index of the `k`-th triple -/
def triIdx (xs : List (List ℕ)) (k p : ℕ) : ℕ := (xs.getD k []).getD p 0

/-- the vector `v` read through the triples `xs`: position `3k + p` carries `v (triIdx xs k p)` -/
def expRead (xs : List (List ℕ)) (v : ℕ → ℝ) : ℕ → ℝ := fun i => v (triIdx xs (i / 3) (i % 3))

lemma expRead_0 (xs : List (List ℕ)) (v : ℕ → ℝ) (k : ℕ) :
    expRead xs v (3 * k) = v (triIdx xs k 0) := by
  have h1 : (3 * k) % 3 = 0 := by omega
  have h2 : (3 * k) / 3 = k := by omega
  simp only [expRead, h1, h2]

lemma expRead_1 (xs : List (List ℕ)) (v : ℕ → ℝ) (k : ℕ) :
    expRead xs v (3 * k + 1) = v (triIdx xs k 1) := by
  have h1 : (3 * k + 1) % 3 = 1 := by omega
  have h2 : (3 * k + 1) / 3 = k := by omega
  simp only [expRead, h1, h2]

lemma expRead_2 (xs : List (List ℕ)) (v : ℕ → ℝ) (k : ℕ) :
    expRead xs v (3 * k + 2) = v (triIdx xs k 2) := by
  have h1 : (3 * k + 2) % 3 = 2 := by omega
  have h2 : (3 * k + 2) / 3 = k := by omega
  simp only [expRead, h1, h2]

/-- `expRead` as a linear map into `Fin (3 * xs.length) → ℝ` -/
def expReadL (xs : List (List ℕ)) : (ℕ → ℝ) →ₗ[ℝ] (Fin (3 * xs.length) → ℝ) where
  toFun := fun v i => expRead xs v i.val
  map_add' x y := by funext i; simp only [expRead, Pi.add_apply]
  map_smul' t x := by
    funext i; simp only [expRead, Pi.smul_apply, smul_eq_mul, RingHom.id_apply]

lemma extF_expReadL (xs : List (List ℕ)) (v : ℕ → ℝ) (i : ℕ) (hi : i < 3 * xs.length) :
    extF (expReadL xs v) i = expRead xs v i := by
  have : extF (expReadL xs v) i = (expReadL xs v) ⟨i, hi⟩ := extF_val _ ⟨i, hi⟩
  rw [this]; rfl

/-- the cones of `xs` hold at `v` iff the vector read through `xs` is in the product cone -/
lemma expReadL_mem (xs : List (List ℕ)) (v : ℕ → ℝ) :
    expReadL xs v ∈ expProd xs.length ↔
      ∀ k < xs.length, realExpCone (v (triIdx xs k 0)) (v (triIdx xs k 1)) (v (triIdx xs k 2)) := by
  unfold expProd
  simp only [Set.mem_ofPred_eq]
  apply forall_congr'; intro k
  apply imp_congr_right; intro hk
  rw [extF_expReadL _ _ _ (by omega), extF_expReadL _ _ _ (by omega),
    extF_expReadL _ _ _ (by omega), expRead_0, expRead_1, expRead_2]

lemma expReadL_mem_strict (xs : List (List ℕ)) (v : ℕ → ℝ) :
    expReadL xs v ∈ expProdStrict xs.length ↔
      ∀ k < xs.length,
        realExpStrict (v (triIdx xs k 0)) (v (triIdx xs k 1)) (v (triIdx xs k 2)) := by
  unfold expProdStrict
  simp only [Set.mem_ofPred_eq]
  apply forall_congr'; intro k
  apply imp_congr_right; intro hk
  rw [extF_expReadL _ _ _ (by omega), extF_expReadL _ _ _ (by omega),
    extF_expReadL _ _ _ (by omega), expRead_0, expRead_1, expRead_2]

/-- membership of every listed triple, stated over the list, is membership for every position -/
lemma forall_mem_triIdx (xs : List (List ℕ)) (R : ℝ → ℝ → ℝ → Prop) (v : ℕ → ℝ) :
    (∀ e ∈ xs, R (v (e.getD 0 0)) (v (e.getD 1 0)) (v (e.getD 2 0))) ↔
      ∀ k < xs.length, R (v (triIdx xs k 0)) (v (triIdx xs k 1)) (v (triIdx xs k 2)) := by
  constructor
  · intro h k hk
    have hm : xs.getD k [] ∈ xs := by
      rw [List.getD_eq_getElem _ _ hk]; exact List.getElem_mem hk
    exact h _ hm
  · intro h e he
    obtain ⟨k, hk, rfl⟩ := List.getElem_of_mem he
    have := h k hk
    simp only [triIdx, List.getD_eq_getElem _ _ hk] at this
    exact this

/-- the multipliers `w` (one triple per cone) scattered to the coordinates: the coefficient of
coordinate `j` in `Σ_k pairing (w_k, v[xs_k])` -/
def expScatter (xs : List (List ℕ)) (w : ℕ → ℝ) (j : ℕ) : ℝ :=
  ∑ k ∈ range xs.length,
    ((if triIdx xs k 0 = j then - w (3 * k + 2) else 0) +
     (if triIdx xs k 1 = j then w (3 * k + 1) else 0) +
     (if triIdx xs k 2 = j then - (w (3 * k) + w (3 * k + 2)) else 0))

lemma sum_ite_eq_mul (n e : ℕ) (he : e < n) (A : ℝ) (v : ℕ → ℝ) :
    ∑ j ∈ range n, (if e = j then A else 0) * v j = A * v e := by
  rw [Finset.sum_eq_single e]
  · rw [if_pos rfl]
  · intro j _ hj; rw [if_neg (Ne.symm hj), zero_mul]
  · intro hn; exact absurd (Finset.mem_range.mpr he) hn

lemma expScatter_pair (xs : List (List ℕ)) (n : ℕ)
    (hlt : ∀ k < xs.length, ∀ p < 3, triIdx xs k p < n) (w v : ℕ → ℝ) :
    ∑ j ∈ range n, expScatter xs w j * v j
      = ∑ k ∈ range xs.length, expPairing w (expRead xs v) k := by
  simp only [expScatter, Finset.sum_mul]
  rw [Finset.sum_comm]
  apply Finset.sum_congr rfl
  intro k hk
  have hk' : k < xs.length := Finset.mem_range.mp hk
  simp only [add_mul, Finset.sum_add_distrib]
  rw [sum_ite_eq_mul n _ (hlt k hk' 0 (by omega)), sum_ite_eq_mul n _ (hlt k hk' 1 (by omega)),
    sum_ite_eq_mul n _ (hlt k hk' 2 (by omega))]
  simp only [expPairing, expRead_0, expRead_1, expRead_2]
  ring

lemma expScatter_eq_zero (xs : List (List ℕ)) (w : ℕ → ℝ) (j : ℕ)
    (hj : ∀ k < xs.length, ∀ p < 3, triIdx xs k p ≠ j) : expScatter xs w j = 0 := by
  unfold expScatter
  apply Finset.sum_eq_zero
  intro k hk
  have hk' : k < xs.length := Finset.mem_range.mp hk
  rw [if_neg (hj k hk' 0 (by omega)), if_neg (hj k hk' 1 (by omega)),
    if_neg (hj k hk' 2 (by omega))]
  ring

lemma triIdx_mem (xs : List (List ℕ)) (hlen : ∀ e ∈ xs, e.length = 3) (k p : ℕ)
    (hk : k < xs.length) (hp : p < 3) : xs.getD k [] ∈ xs ∧ triIdx xs k p ∈ xs.getD k [] := by
  have hm : xs.getD k [] ∈ xs := by
    rw [List.getD_eq_getElem _ _ hk]; exact List.getElem_mem hk
  refine ⟨hm, ?_⟩
  have hl := hlen _ hm
  exact ConeProg.getD_mem' (xs.getD k []) p (by omega) 0

/-! ### Second-order cones are convex -/

lemma socMem_add_closed (x y : ℕ → ℝ) (q : List ℕ) (hx : socMem x q) (hy : socMem y q) :
    socMem (fun i => x i + y i) q := by
  cases q with
  | nil => trivial
  | cons a T =>
    obtain ⟨hx0, hx1⟩ := hx
    obtain ⟨hy0, hy1⟩ := hy
    refine ⟨by linarith, ?_⟩
    rw [sum_map_eq_range] at hx1 hy1 ⊢
    have hin := soc_inner_le T.length (fun p => x (T.getD p 0)) (fun p => y (T.getD p 0))
      (x a) (y a) hx0 hy0 hx1 hy1
    have e : ∑ p ∈ range T.length, (x (T.getD p 0) + y (T.getD p 0)) ^ 2
        = ∑ p ∈ range T.length, x (T.getD p 0) ^ 2
          + 2 * ∑ p ∈ range T.length, x (T.getD p 0) * y (T.getD p 0)
          + ∑ p ∈ range T.length, y (T.getD p 0) ^ 2 := by
      rw [Finset.mul_sum, ← Finset.sum_add_distrib, ← Finset.sum_add_distrib]
      apply Finset.sum_congr rfl; intro p _; ring
    rw [e]
    nlinarith

lemma socMem_comb (x y : ℕ → ℝ) (q : List ℕ) (a b : ℝ) (ha : 0 ≤ a) (hb : 0 ≤ b)
    (hx : socMem x q) (hy : socMem y q) : socMem (fun i => a * x i + b * y i) q :=
  socMem_add_closed _ _ q (socMem_smul x q a ha hx) (socMem_smul y q b hb hy)

/-! ### Matrix form -/

/-- extension by zero, as a linear map -/
def extFL (n : ℕ) : (Fin n → ℝ) →ₗ[ℝ] (ℕ → ℝ) where
  toFun := fun ζ => extF ζ
  map_add' x y := by funext i; simp only [extF_add, Pi.add_apply]
  map_smul' t x := by
    funext i; simp only [extF_smul, Pi.smul_apply, smul_eq_mul, RingHom.id_apply]

open ConeProg in
/-- **Conic strong duality with dual attainment (rows, second-order cones and exponential cones,
Slater point), matrix form.**  Primal:
`sup { ⟪c, ζ⟫ : A ζ ≤ b, F ζ = g, ζ[q] ∈ SOC (q ∈ qs), ζ[e] ∈ EXP (e ∈ xs) }` over
`ζ : Fin n → ℝ`; exponential cones are index triples in rsome's order
(`ζ[e₂] * exp (ζ[e₀] / ζ[e₂]) ≤ ζ[e₁]`).  If some `ζ0` satisfies the rows and is strictly inside
every cone, and `γ` bounds the objective on the feasible set, then there are `lam ≥ 0`, `mu`,
`s` in the product of second-order cones and `u` in the product of exponential cones (triple `k`
of `u` for cone `k`) with
`Aᵀ lam + Fᵀ mu - scatter s - expScatter u = c` and `⟪b, lam⟫ + ⟪g, mu⟫ ≤ γ`; here
`expScatter xs u j = Σ_k [e_k0 = j] (-u_k2) + [e_k1 = j] u_k1 + [e_k2 = j] (-(u_k0 + u_k2))`
is exactly the column pattern of the exponential block of `gcp.Model.do_math(primal=False)`. -/
theorem conic_strong_duality_exp_fin {n p r : ℕ}
    (A : Fin p → Fin n → ℝ) (b : Fin p → ℝ) (F : Fin r → Fin n → ℝ) (g : Fin r → ℝ)
    (qs : List (List ℕ)) (hqs : ∀ q ∈ qs, ∀ j ∈ q, j < n)
    (xs : List (List ℕ)) (hxl : ∀ e ∈ xs, e.length = 3) (hxs : ∀ e ∈ xs, ∀ j ∈ e, j < n)
    (c : Fin n → ℝ) (γ : ℝ)
    (hslater : ∃ ζ0 : Fin n → ℝ, (∀ i, ∑ j, A i j * ζ0 j ≤ b i) ∧ (∀ i, ∑ j, F i j * ζ0 j = g i) ∧
        (∀ q ∈ qs, socStrict (extF ζ0) q) ∧
        ∀ e ∈ xs, realExpStrict (extF ζ0 (e.getD 0 0)) (extF ζ0 (e.getD 1 0)) (extF ζ0 (e.getD 2 0)))
    (hbd : ∀ ζ : Fin n → ℝ, (∀ i, ∑ j, A i j * ζ j ≤ b i) → (∀ i, ∑ j, F i j * ζ j = g i) →
        (∀ q ∈ qs, socMem (extF ζ) q) →
        (∀ e ∈ xs, realExpCone (extF ζ (e.getD 0 0)) (extF ζ (e.getD 1 0)) (extF ζ (e.getD 2 0))) →
        ∑ j, c j * ζ j ≤ γ) :
    ∃ (lam : Fin p → ℝ) (mu : Fin r → ℝ) (s u : ℕ → ℝ),
      (∀ i, 0 ≤ lam i) ∧ (∀ bl ∈ qBlocks qs 0, socMem s bl) ∧
      (∀ k < xs.length, realExpCone (u (3 * k)) (u (3 * k + 1)) (u (3 * k + 2))) ∧
      (∀ j : Fin n, ∑ i, lam i * A i j + ∑ i, mu i * F i j
          - ∑ k ∈ range qs.flatten.length, (if qs.flatten.getD k 0 = j.val then s k else 0)
          - expScatter xs u j.val = c j) ∧
      ∑ i, lam i * b i + ∑ i, mu i * g i ≤ γ := by
  obtain ⟨ζ0, hA0, hF0, hs0, hx0⟩ := hslater
  set C : Set (Fin n → ℝ) := {ζ | (∀ i, ∑ j, A i j * ζ j ≤ b i) ∧ (∀ i, ∑ j, F i j * ζ j = g i) ∧
    ∀ q ∈ qs, socMem (extF ζ) q} with hC
  have hcomb : ∀ (M : Fin n → ℝ) (x y : Fin n → ℝ) (a' b' : ℝ),
      ∑ j, M j * (a' • x + b' • y) j = a' * ∑ j, M j * x j + b' * ∑ j, M j * y j := by
    intro M x y a' b'
    rw [Finset.mul_sum, Finset.mul_sum, ← Finset.sum_add_distrib]
    apply Finset.sum_congr rfl; intro j _
    simp only [Pi.add_apply, Pi.smul_apply, smul_eq_mul]; ring
  have hCconv : Convex ℝ C := by
    rintro x ⟨hx1, hx2, hx3⟩ y ⟨hy1, hy2, hy3⟩ a' b' ha hb hab
    refine ⟨fun i => ?_, fun i => ?_, fun q hq => ?_⟩
    · rw [hcomb]
      have e1 := mul_le_mul_of_nonneg_left (hx1 i) ha
      have e2 := mul_le_mul_of_nonneg_left (hy1 i) hb
      have : a' * b i + b' * b i = b i := by rw [← add_mul, hab, one_mul]
      linarith
    · rw [hcomb, hx2 i, hy2 i, ← add_mul, hab, one_mul]
    · rw [socMem_congr (extF (a' • x + b' • y)) (fun i => a' * extF x i + b' * extF y i) q
        (fun i _ => by rw [extF_add, extF_smul, extF_smul])]
      exact socMem_comb _ _ q a' b' ha hb (hx3 q hq) (hy3 q hq)
  set T : (Fin n → ℝ) →ₗ[ℝ] (Fin (3 * xs.length) → ℝ) := (expReadL xs).comp (extFL n) with hT
  have hTK : ∀ ζ, T ζ ∈ expProd xs.length ↔
      ∀ e ∈ xs, realExpCone (extF ζ (e.getD 0 0)) (extF ζ (e.getD 1 0)) (extF ζ (e.getD 2 0)) :=
    fun ζ => (expReadL_mem xs (extF ζ)).trans (forall_mem_triIdx xs realExpCone (extF ζ)).symm
  have hTKi : ∀ ζ, T ζ ∈ expProdStrict xs.length ↔
      ∀ e ∈ xs, realExpStrict (extF ζ (e.getD 0 0)) (extF ζ (e.getD 1 0)) (extF ζ (e.getD 2 0)) :=
    fun ζ => (expReadL_mem_strict xs (extF ζ)).trans
      (forall_mem_triIdx xs realExpStrict (extF ζ)).symm
  obtain ⟨u, hu, hL⟩ := exp_lagrange C hCconv xs.length T (negCostL c) (-γ) ζ0
    ⟨hA0, hF0, fun q hq => (hs0 q hq).socMem⟩ ((hTKi ζ0).mpr hx0)
    (fun ζ hζ hk => by
      have := hbd ζ hζ.1 hζ.2.1 hζ.2.2 ((hTK ζ).mp hk)
      show -γ ≤ - ∑ j, c j * ζ j
      linarith)
  have hlt : ∀ k < xs.length, ∀ p < 3, triIdx xs k p < n := by
    intro k hk p hp
    obtain ⟨h1, h2⟩ := triIdx_mem xs hxl k p hk hp
    exact hxs _ h1 _ h2
  -- the bound on the region cut out by the rows and the second-order cones
  have hpoly : ∀ ζ : Fin n → ℝ, (∀ i, ∑ j, A i j * ζ j ≤ b i) → (∀ i, ∑ j, F i j * ζ j = g i) →
      (∀ q ∈ qs, socMem (extF ζ) q) → ∑ j, (c j + expScatter xs u j.val) * ζ j ≤ γ := by
    intro ζ h1 h2 h3
    have h := hL ζ ⟨h1, h2, h3⟩
    have e1 : ∑ k ∈ range xs.length, expPairing u (extF (T ζ)) k
        = ∑ k ∈ range xs.length, expPairing u (expRead xs (extF ζ)) k := by
      apply Finset.sum_congr rfl
      intro k hk
      have hk' : k < xs.length := Finset.mem_range.mp hk
      have e : ∀ i < 3 * xs.length, extF (T ζ) i = expRead xs (extF ζ) i :=
        fun i hi => extF_expReadL xs (extF ζ) i hi
      simp only [expPairing]
      rw [e _ (by omega), e _ (by omega), e _ (by omega)]
    rw [e1, ← expScatter_pair xs n hlt u (extF ζ)] at h
    have e2 : ∑ j ∈ range n, expScatter xs u j * extF ζ j
        = ∑ j : Fin n, expScatter xs u j.val * ζ j :=
      (sum_fin_extF ζ (expScatter xs u)).symm
    rw [e2] at h
    have h' : -γ ≤ - (∑ j, c j * ζ j) - ∑ j : Fin n, expScatter xs u j.val * ζ j := h
    have e3 : ∑ j, (c j + expScatter xs u j.val) * ζ j
        = ∑ j, c j * ζ j + ∑ j : Fin n, expScatter xs u j.val * ζ j := by
      rw [← Finset.sum_add_distrib]; apply Finset.sum_congr rfl; intro j _; ring
    rw [e3]; linarith
  obtain ⟨lam, mu, s, hlam, hs, hrow, hval⟩ := soc_strong_duality_fin A b F g qs hqs
    (fun j => c j + expScatter xs u j.val) γ ⟨ζ0, hA0, hF0, hs0⟩ hpoly
  refine ⟨lam, mu, s, u, hlam, hs, hu, fun j => ?_, hval⟩
  have := hrow j
  linarith

end

end RsomeV
