import RsomeV.Drv.All
open Lean RsomeV.Drv

/-! JSON line-protocol driver: one request per line `{"op": ..., ...}`, one reply per line.
Run with `lake env lean --run Driver.lean < cases.jsonl`. -/

def handle (line : String) : String :=
  match (do
    let j ← Json.parse line
    let op ← jStr (← fld j "op")
    dispatch op j : Except String Json) with
  | .ok r => r.compress
  | .error e => (Json.mkObj [("error", Json.str e)]).compress

partial def loop (h : IO.FS.Stream) : IO Unit := do
  let line ← h.getLine
  if line.isEmpty then return ()
  if line.trimAscii.isEmpty then loop h else
  IO.println (handle line)
  loop h

def main : IO Unit := do loop (← IO.getStdin)
