import RsomeV.M.LpDual
import RsomeV.L.LpDualWeak
