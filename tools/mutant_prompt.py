#!/usr/bin/env python3
"""Print the prompt given to an independent sub-agent that seeds a property-breaking change.
usage: mutant_prompt.py Cxx /tmp/wt/Cxx [n]"""
import json, sys
pid, wt = sys.argv[1], sys.argv[2]
n = int(sys.argv[3]) if len(sys.argv) > 3 else 2
p = [json.loads(l) for l in open('/verif/properties.jsonl') if json.loads(l)['id'] == pid][0]
print(f"""You are helping test a verification effort by seeding realistic bugs. You work ONLY inside the git worktree {wt}
(a scratch checkout of the Python library XiongPengNUS/rsome: an algebraic modeling layer for robust / distributionally
robust optimization). Do not read or touch /repo or /verif or any other directory. Use /venv/bin/python (rsome's deps are
installed there; to import the worktree's copy run with PYTHONPATH={wt} and cwd={wt}). There is no network.

Property ({p['id']}: {p['title']}):
  {p['statement']}
  Quantified over: {p['quantifier']['text']}

Task: produce {n} DIFFERENT small source changes to files under {wt}/rsome/ each of which BREAKS this property while
 (a) the package still imports and the existing test suite still passes
     (run: cd {wt} && /venv/bin/python -m pytest -q -p no:cacheprovider --timeout=900 -x -q tests 2>&1 | tail -5 ; it takes
      about 8 minutes; a handful of tests named test_dro_affine::test_*roaffine_mat_mul[array11-...] and
      test_random_adaptive_array_mul[...] with float ids are known-flaky and may be ignored), and
 (b) the breakage needs something specific to manifest - an unusual input, a particular bound pattern / shape / parameter,
     a multi-step sequence of API calls, or two sites that each look fine alone - NOT something ordinary use exposes at once.
Each change must look like a plausible slip a maintainer could make (sign, index, off-by-one, wrong axis, stale cache, wrong
branch condition, in-place mutation...), be a few lines, and be in code that the property is actually about.

For each change i (1..{n}) write into {wt}/out/m<i>/ :
  patch.diff   - `git diff` of ONLY that change against the clean worktree HEAD (apply-able with `git apply`)
  demo.py      - a small standalone program (run as: cd <tree> && PYTHONPATH=<tree> /venv/bin/python demo.py) that exits 0
                 and prints PASS on the clean tree and exits 1 printing FAIL on the changed tree, demonstrating the property
                 violation with a concrete model/input (use numeric tolerance 1e-6 where a solver is involved;
                 available solvers: default (scipy/HiGHS), rsome.ort_solver, rsome.eco_solver, rsome.grb_solver (small models))
  meta.json    - {{"property": "{p['id']}", "summary": "...what was changed...", "needs": "...what is needed for it to manifest...",
                  "files": [...], "tests_pass": true/false, "demo_clean": "PASS", "demo_mutant": "FAIL"}}
Work one change at a time: edit, run demo on changed tree, `git diff > out/m<i>/patch.diff`, `git checkout -- rsome`, run demo
on clean tree, then re-apply to run the test-suite (you may run the suite once per change; run them sequentially). Leave the
worktree clean (git checkout -- rsome) when done; NEVER use `git stash` (the stash is shared with other worktrees); the out/ directory is untracked and stays. Report in your final message, per
change: the summary, what it needs to manifest, whether tests passed, demo results.""")
