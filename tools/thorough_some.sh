#!/bin/bash
# thorough checks of the properties given as arguments, against $RSOME_REPO (default /repo); summary lines only
cd "$(dirname "$0")/.."
( cd lean && lake build RsomeV RsomeV.Drv.All > /dev/null 2>&1 )
for p in "$@"; do
  s=$(date +%s)
  out=$(timeout 7200 bin/check $p --tier thorough 2>&1 | grep -E "^VIOLATION|^##" | tr '\n' ' ')
  echo "$p $(( $(date +%s) - s ))s :: ${out:0:260}"
done
