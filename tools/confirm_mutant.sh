#!/bin/bash
# confirm_mutant.sh <property> <src out dir with patch.diff demo.py meta.json> <seeded name> [notests]
# Confirms, in a scratch worktree of /repo HEAD (outside /repo and /verif): the patch applies, the demo passes
# without it and fails with it, and the pinned suite still passes with it. Writes /verif/seeded/<name>/.
set -u
PROP=$1; SRC=$2; NAME=$3; NOTESTS=${4:-}
WT=/tmp/cw/$NAME
DST=/verif/seeded/$NAME
mkdir -p /tmp/cw "$DST"
git -C /repo worktree remove --force "$WT" 2>/dev/null
git -C /repo worktree add -q --detach "$WT" HEAD || exit 2
cp "$SRC/patch.diff" "$SRC/demo.py" "$DST/"
cd "$WT"
clean=$(PYTHONPATH=$WT timeout 600 /venv/bin/python "$DST/demo.py" 2>&1 | tail -1; echo "rc=${PIPESTATUS[0]}")
if ! git apply "$DST/patch.diff"; then echo "PATCH DOES NOT APPLY" ; applied=false; else applied=true; fi
mut=$(PYTHONPATH=$WT timeout 600 /venv/bin/python "$DST/demo.py" 2>&1 | tail -1; echo "rc=${PIPESTATUS[0]}")
tests="skipped"
if [ "$applied" = true ] && [ -z "$NOTESTS" ]; then
  /venv/bin/python -m pytest -q -p no:cacheprovider --timeout=900 -q tests > "$DST/tests.log" 2>&1
  tests=$(tail -1 "$DST/tests.log")
fi
base=$(git -C /repo rev-parse --short HEAD)
/venv/bin/python - "$PROP" "$SRC" "$DST" "$clean" "$mut" "$tests" "$applied" "$base" <<'PY'
import json,sys
prop,src,dst,clean,mut,tests,applied,base=sys.argv[1:]
try: m=json.load(open(src+'/meta.json'))
except Exception: m={}
out={"property":prop,"summary":m.get("summary"),"needs":m.get("needs"),"files":m.get("files"),
     "confirmed":{"base_commit":base,"patch_applies":applied=="true","demo_without_change":clean.replace("\n"," "),
                  "demo_with_change":mut.replace("\n"," "),"suite_with_change":tests,
                  "ran":"tools/confirm_mutant.sh in a scratch worktree of /repo HEAD: demo.py before/after git apply patch.diff; pytest -q tests with the change"},
     "detected_by":None}
json.dump(out,open(dst+'/meta.json','w'),indent=1)
print(json.dumps(out["confirmed"]))
PY
cd /; git -C /repo worktree remove --force "$WT"
