#!/bin/bash
# For every seeded change: apply it to /repo, run the quick check of its own property (and any extra checks named in
# seeded/<id>/also_check), record which checks report a VIOLATION in seeded/<id>/meta.json (detected_by), undo the change.
# Usage: tools/mutant_matrix.sh [id ...]      (default: all)
cd /verif
ids="$@"; [ -z "$ids" ] && ids=$(ls seeded)
if [ -n "$(git -C /repo status --porcelain --untracked-files=no)" ]; then echo "/repo has local changes; refusing"; exit 2; fi
for id in $ids; do
  d=seeded/$id; [ -f $d/patch.diff ] || continue
  prop=${id%%-*}
  checks="$prop $(cat $d/also_check 2>/dev/null)"
  if ! git -C /repo apply --check /verif/$d/patch.diff 2>/dev/null; then echo "$id: patch does not apply"; continue; fi
  git -C /repo apply /verif/$d/patch.diff
  det=""; how=""
  for c in $checks; do
    out=$(timeout 1800 bin/check $c 2>&1 | grep -E "^VIOLATION" | head -1)
    if [ -n "$out" ]; then
      det="$det $c"
      case "$out" in *no-failing-input-found) how="$how $c:proof-or-correspondence-only";; *) how="$how $c:failing-input";; esac
    fi
  done
  git -C /repo checkout -- .
  python3 - "$d/meta.json" "$det" "$how" <<'PY'
import json, sys
p, det, how = sys.argv[1], sys.argv[2].split(), sys.argv[3].split()
m = json.load(open(p)); m['detected_by'] = det; m['detection_kind'] = how
json.dump(m, open(p, 'w'), indent=1)
PY
  echo "$id: detected_by=[$det ] $how"
done
