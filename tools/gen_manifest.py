#!/usr/bin/env python3
"""Regenerate MANIFEST.json from harness/registry.json (one entry per claimed property)."""
import json, os
V = os.path.dirname(os.path.dirname(os.path.abspath(__file__)))
reg = json.load(open(os.path.join(V, 'harness', 'registry.json')))
props = [json.loads(l)['id'] for l in open(os.path.join(V, 'properties.jsonl'))]
checks, na = [], []
for pid in props:
    r = reg.get(pid)
    if r and r.get('claimed'):
        checks.append({
            "property_id": pid,
            "quick_cmd": f"bin/check {pid} --tier quick",
            "thorough_cmd": f"bin/check {pid} --tier thorough",
            "evidence_file": f"evidence/{pid}.json",
            "replay_cmd_template": "bin/check --replay {path}",
            "engine": "lean4-proof+correspondence",
            "level_claimed": {"category": "proof", "text": r['text'], "design_ref": r.get('design_ref', 'DESIGN.md §6 ' + pid)},
            "level_note": r['note'],
            "technique": r['technique'],
        })
    else:
        na.append({"property_id": pid, "reason": (r or {}).get('reason', 'check not built yet in this round; planned per DESIGN.md §6')})
man = {
    "version": 1,
    "setup_cmd": "cd lean && lake build RsomeV RsomeV.Drv.All",
    "hooks": {"guard": "RSOME_VERIF", "enable": "no source hooks are needed: the harness observes public attributes and wraps solver entry points from outside",
              "baseline_off_cmd": "cd /repo && /venv/bin/python -m pytest -q -p no:cacheprovider --timeout=900 tests",
              "source_commits": [], "add_only": True},
    "engines": [{"name": "lean4-proof+correspondence", "path": "bin/check",
                 "serves_properties": [c['property_id'] for c in checks],
                 "kind_free_text": "Lean 4 theorems about an executable model (lean/RsomeV), tied to /repo on every run by a differential "
                                   "correspondence harness (harness/, JSON line protocol to lean/Driver.lean) and source-extracted tables; "
                                   "failing-input search with independent oracles on the real code"}],
    "checks": checks,
    "not_applicable": na,
    "notes": "See DESIGN.md. Known findings: known_findings.json. Seeded changes used to test the checks: seeded/."
}
json.dump(man, open(os.path.join(V, 'MANIFEST.json'), 'w'), indent=1)
print(len(checks), 'claimed;', len(na), 'not claimed')
