#!/bin/bash
# run the pinned test-suite on a scratch worktree of /repo HEAD; result in /tmp/suite_<sha>.log
sha=$(git -C /repo rev-parse --short HEAD)
WT=/tmp/cw/suite_$sha
git -C /repo worktree remove --force "$WT" 2>/dev/null
git -C /repo worktree add -q --detach "$WT" HEAD || exit 2
cd "$WT" && /venv/bin/python -m pytest -ra -q -p no:cacheprovider --timeout=900 --continue-on-collection-errors tests > /tmp/suite_$sha.log 2>&1
tail -3 /tmp/suite_$sha.log
cd /; git -C /repo worktree remove --force "$WT"
