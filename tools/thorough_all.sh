#!/bin/bash
# run every thorough check once against the repository snapshot given in $RSOME_REPO (default /repo); summary lines only
cd "$(dirname "$0")/.."
( cd lean && lake build RsomeV RsomeV.Drv.All > /dev/null 2>&1 )
for i in $(seq -w 1 19); do
  p=C$i; s=$(date +%s)
  out=$(timeout 7200 bin/check $p --tier thorough 2>&1 | grep -E "^VIOLATION|^##" | tr '\n' ' ')
  echo "$p $(( $(date +%s) - s ))s :: ${out:0:260}"
done
