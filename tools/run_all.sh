#!/bin/bash
# run every quick check once (optionally with VERIF_SEED) and summarise
cd /verif
for i in $(seq -w 1 19); do
  p=C$i
  s=$(date +%s)
  out=$(timeout 1500 bin/check $p --tier ${1:-quick} 2>&1 | grep -v "^KNOWN" | tail -2)
  rc=$?
  e=$(( $(date +%s) - s ))
  echo "$p ${e}s :: $(echo "$out" | tr '\n' ' ' | cut -c1-230)"
done
