import Mathlib.Data.Matrix.Mul
import Mathlib.Algebra.Order.BigOperators.Group.Finset
import Mathlib.Algebra.Order.Field.Basic
import Mathlib.Tactic.Linarith
import Mathlib.Tactic.Ring

open Matrix Finset

variable {K : Type} [Field K] [LinearOrder K] [IsStrictOrderedRing K] {m n : ℕ}

inductive VClass | free | nonneg | nonpos
deriving DecidableEq

structure PFeas (A : Matrix (Fin m) (Fin n) K) (b : Fin m → K) (eq : Fin m → Bool)
    (cls : Fin n → VClass) (x : Fin n → K) : Prop where
  rows : ∀ i, if eq i then (A *ᵥ x) i = b i else (A *ᵥ x) i ≤ b i
  sign : ∀ j, match cls j with | .free => True | .nonneg => 0 ≤ x j | .nonpos => x j ≤ 0

structure DFeas (A : Matrix (Fin m) (Fin n) K) (c : Fin n → K) (eq : Fin m → Bool)
    (cls : Fin n → VClass) (y : Fin m → K) : Prop where
  sign : ∀ i, eq i = false → y i ≤ 0
  cols : ∀ j, match cls j with
    | .free => (y ᵥ* A) j = c j
    | .nonneg => (y ᵥ* A) j ≤ c j
    | .nonpos => c j ≤ (y ᵥ* A) j

theorem weak_duality (A : Matrix (Fin m) (Fin n) K) (b : Fin m → K) (c : Fin n → K)
    (eq : Fin m → Bool) (cls : Fin n → VClass) (x : Fin n → K) (y : Fin m → K)
    (hp : PFeas A b eq cls x) (hd : DFeas A c eq cls y) : b ⬝ᵥ y ≤ c ⬝ᵥ x := by
  have h1 : (y ᵥ* A) ⬝ᵥ x ≤ c ⬝ᵥ x := by
    unfold dotProduct
    apply Finset.sum_le_sum
    intro j _
    have hs := hp.sign j
    have hc := hd.cols j
    cases hcl : cls j <;> simp only [hcl] at hs hc
    · rw [hc]
    · exact mul_le_mul_of_nonneg_right hc hs
    · exact mul_le_mul_of_nonpos_right hc hs
  have h2 : b ⬝ᵥ y ≤ y ⬝ᵥ (A *ᵥ x) := by
    rw [dotProduct_comm b y]
    unfold dotProduct
    apply Finset.sum_le_sum
    intro i _
    have hr := hp.rows i
    cases he : eq i <;> simp only [he] at hr
    · have := hd.sign i he
      exact mul_le_mul_of_nonpos_left hr this
    · simp at hr; rw [hr]
  rw [dotProduct_mulVec] at h2
  exact le_trans h2 h1

#print axioms weak_duality
