import Lt.Dual
import Lean.Data.Json
open Lean

/-- parse "p/q" or "p" -/
def parseRat (s : String) : Option ℚ :=
  match s.splitOn "/" with
  | [p] => p.toInt?.map (fun i => (i : ℚ))
  | [p, q] => do
      let pi ← p.toInt?
      let qi ← q.toNat?
      if qi = 0 then none else some ((pi : ℚ) / (qi : ℚ))
  | _ => none

def ratStr (r : ℚ) : String := if r.den = 1 then toString r.num else s!"{r.num}/{r.den}"

def jRat (j : Json) : Except String ℚ := do
  let s ← j.getStr?
  match parseRat s with | some r => pure r | none => throw s!"bad rat {s}"

def jOptRat (j : Json) : Except String (Option ℚ) :=
  if j.isNull then pure none else (jRat j).map some

def jArr (j : Json) : Except String (Array Json) := j.getArr?

def handle (line : String) : Except String String := do
  let j ← Json.parse line
  let nr ← (← j.getObjVal? "nr").getNat?
  let nc ← (← j.getObjVal? "nc").getNat?
  let aRows ← jArr (← j.getObjVal? "a")
  let a : Array (Array ℚ) ← aRows.mapM (fun r => do (← jArr r).mapM jRat)
  let b ← (← jArr (← j.getObjVal? "b")).mapM jRat
  let eq ← (← jArr (← j.getObjVal? "eq")).mapM (fun e => e.getNat?)
  let ub ← (← jArr (← j.getObjVal? "ub")).mapM jOptRat
  let lb ← (← jArr (← j.getObjVal? "lb")).mapM jOptRat
  let c ← (← jArr (← j.getObjVal? "c")).mapM jRat
  let P : LinProg ℚ := {
    nr := nr, nc := nc
    a := fun i k => (a.getD i #[]).getD k 0
    b := fun i => b.getD i 0
    eq := fun i => eq.getD i 0 == 1
    ub := fun k => ub.getD k none
    lb := fun k => lb.getD k none
    c := fun k => c.getD k 0 }
  let D := P.dual
  let rows := (List.range D.nr).map fun r => Json.arr ((List.range D.nc).map fun k => Json.str (ratStr (D.a r k))).toArray
  let opt (o : Option ℚ) : Json := match o with | none => Json.null | some v => Json.str (ratStr v)
  let out := Json.mkObj [
    ("nr", Json.num D.nr), ("nc", Json.num D.nc),
    ("a", Json.arr rows.toArray),
    ("b", Json.arr ((List.range D.nr).map fun r => Json.str (ratStr (D.b r))).toArray),
    ("eq", Json.arr ((List.range D.nr).map fun r => Json.num (if D.eq r then 1 else 0)).toArray),
    ("ub", Json.arr ((List.range D.nc).map fun k => opt (D.ub k)).toArray),
    ("lb", Json.arr ((List.range D.nc).map fun k => opt (D.lb k)).toArray),
    ("c", Json.arr ((List.range D.nc).map fun k => Json.str (ratStr (D.c k))).toArray)]
  pure out.compress

partial def loop (h : IO.FS.Stream) : IO Unit := do
  let line ← h.getLine
  if line.isEmpty then return ()
  match handle line with
  | .ok s => IO.println s
  | .error e => IO.println (Json.mkObj [("error", Json.str e)]).compress
  loop h

def main : IO Unit := do loop (← IO.getStdin)
