import Mathlib.Algebra.Order.BigOperators.Group.Finset
import Mathlib.Algebra.Order.Chebyshev
import Mathlib.Analysis.SpecialFunctions.Exp
import Mathlib.Tactic.Linarith
import Mathlib.Tactic.Ring
import Mathlib.Tactic.Positivity

open Finset

section soc
variable {K : Type} [Field K] [LinearOrder K] [IsStrictOrderedRing K]

theorem soc_pairing (n : ℕ) (x y : ℕ → K) (t s : K) (ht : 0 ≤ t) (hs : 0 ≤ s)
    (hx : ∑ i ∈ range n, x i ^ 2 ≤ t ^ 2) (hy : ∑ i ∈ range n, y i ^ 2 ≤ s ^ 2) :
    0 ≤ t * s + ∑ i ∈ range n, x i * y i := by
  have cs := Finset.sum_mul_sq_le_sq_mul_sq (range n) x y
  have h1 : (∑ i ∈ range n, x i * y i) ^ 2 ≤ (t * s) ^ 2 := by
    calc (∑ i ∈ range n, x i * y i) ^ 2 ≤ (∑ i ∈ range n, x i ^ 2) * ∑ i ∈ range n, y i ^ 2 := cs
      _ ≤ t ^ 2 * s ^ 2 := by
          apply mul_le_mul hx hy (sum_nonneg (fun i _ => sq_nonneg _)) (sq_nonneg _)
      _ = (t * s) ^ 2 := by ring
  have h2 : |∑ i ∈ range n, x i * y i| ≤ |t * s| := sq_le_sq.mp h1
  have h3 : |t * s| = t * s := abs_of_nonneg (mul_nonneg ht hs)
  rw [h3] at h2
  have := neg_le_of_abs_le h2
  linarith
end soc

/-- exp-cone pairing, interior case -/
theorem exp_pairing (x y z u0 u1 u2 : ℝ) (hz : 0 < z) (hu : 0 < u2)
    (h1 : z * Real.exp (x / z) ≤ y) (h2 : u2 * Real.exp (u0 / u2) ≤ u1) :
    0 ≤ -u2 * x + u1 * y + (-u0 - u2) * z := by
  have hy : 0 < y := lt_of_lt_of_le (mul_pos hz (Real.exp_pos _)) h1
  have hu1 : 0 < u1 := lt_of_lt_of_le (mul_pos hu (Real.exp_pos _)) h2
  have hprod : (z * Real.exp (x / z)) * (u2 * Real.exp (u0 / u2)) ≤ y * u1 :=
    mul_le_mul h1 h2 (le_of_lt (mul_pos hu (Real.exp_pos _))) (le_of_lt hy)
  have hexp : Real.exp (x / z) * Real.exp (u0 / u2) = Real.exp (x / z + u0 / u2) := by
    rw [Real.exp_add]
  have hlin : x / z + u0 / u2 + 1 ≤ Real.exp (x / z + u0 / u2) := Real.add_one_le_exp _
  have hzu : 0 < z * u2 := mul_pos hz hu
  have key : z * u2 * (x / z + u0 / u2 + 1) ≤ y * u1 := by
    calc z * u2 * (x / z + u0 / u2 + 1) ≤ z * u2 * Real.exp (x / z + u0 / u2) :=
          mul_le_mul_of_nonneg_left hlin (le_of_lt hzu)
      _ = (z * Real.exp (x / z)) * (u2 * Real.exp (u0 / u2)) := by rw [← hexp]; ring
      _ ≤ y * u1 := hprod
  have expand : z * u2 * (x / z + u0 / u2 + 1) = u2 * x + z * u0 + z * u2 := by
    field_simp
  rw [expand] at key
  linarith

#print axioms soc_pairing
#print axioms exp_pairing
