"""C03/C04 search-oracle pilot: random dro models, worst-case expectation by LP over support-vertex distributions (args: seed count)
Pilot run while writing DESIGN.md; not a check. Run with /venv/bin/python and filter lines starting with ##.
"""
import warnings; warnings.filterwarnings('ignore')
import numpy as np, os, sys, itertools
import scipy.optimize as opt
import rsome as rso
from rsome import dro, E
def P(*a): print("##", *a); sys.stdout.flush()
rng = np.random.default_rng(int(sys.argv[1]) if len(sys.argv)>1 else 0)
def rint(lo,hi,size=None): return rng.integers(lo,hi+1,size=size).astype(float)
N = int(sys.argv[2]) if len(sys.argv)>2 else 60
stats={'solved':0,'fail':0,'unsafe':0,'gap':0,'exact':0}; bad=[]
for it in range(N):
    S = int(rng.integers(1,4)); nz = int(rng.integers(1,3)); nd = int(rng.integers(1,3))
    m = dro.Model(S); x = m.dvar(nd); y = m.dvar(); z = m.rvar(nz)
    # event-wise adaptation of y
    part = None
    if S>1 and rng.random()<0.6:
        k = int(rng.integers(1,S)); ev = sorted(rng.choice(S, size=k, replace=False).tolist())
        y.adapt(ev if rng.random()<0.5 else ev[::-1])
    fs = m.ambiguity()
    lo = [rint(-3,0,nz) for s in range(S)]; hi=[lo[s]+rint(1,4,nz) for s in range(S)]
    for s in range(S): fs[s].suppset(z >= lo[s], z <= hi[s])
    # expectation sets
    exps=[]
    if rng.random()<0.7:
        ev = list(range(S)) if rng.random()<0.5 else sorted(rng.choice(S,size=int(rng.integers(1,S+1)),replace=False).tolist())
        mlo = np.max([lo[s] for s in ev],axis=0); mhi = np.min([hi[s] for s in ev],axis=0)
        if np.all(mlo<=mhi):
            c = (mlo+mhi)/2; w = (mhi-mlo)/4
            fs[ev].exptset(E(z) >= c-w, E(z) <= c+w) if len(ev)<S else fs.exptset(E(z) >= c-w, E(z) <= c+w)
            exps.append((ev,c-w,c+w))
    # probability set
    p0 = np.ones(S)/S
    if rng.random()<0.5: fs.probset(m.p == p0); plo=phi=p0
    else:
        d = 0.5/S; plo=np.maximum(p0-d,0); phi=p0+d
        fs.probset(m.p >= plo, m.p <= phi)
    # objective E[c0·x + cy*y + max(pieces)]  pieces affine in (x,z)
    c0 = rint(-1,2,nd); cy = rint(0,2)
    npieces = int(rng.integers(1,4))
    pieces=[(rint(-2,2,(nz,nd)), rint(-2,2,nz), rint(-2,2,nd), rint(-3,3)) for _ in range(npieces)]
    def piece_expr(pc):
        R,r0,a,a0 = pc; return (R@x + r0)@z + a@x + a0
    if npieces==1: obj = E(c0@x + cy*y + piece_expr(pieces[0]))
    else: obj = E(c0@x + cy*y + rso.maxof(*[piece_expr(pc) for pc in pieces]))
    m.minsup(obj, fs)
    # robust constraint linking y: y >= g·z + h·x  for all z in support(s)
    g = rint(-2,2,nz); hh = rint(-1,1,nd)
    m.st(y >= g@z + hh@x)
    m.st(x >= -3, x <= 3, y <= 50)
    try:
        m.solve(display=False); val = m.get()
    except Exception as e:
        stats['fail']+=1; continue
    stats['solved']+=1
    xs = x.get(); ys = y()
    ysv = np.array([ys.iloc[s] for s in range(S)],dtype=float) if hasattr(ys,'iloc') else np.array([float(ys)]*S)
    # check robust constraint per scenario vertex
    for s in range(S):
        for v in itertools.product(*zip(lo[s],hi[s])):
            v=np.array(v)
            if ysv[s] < g@v + hh@xs - 1e-6: bad.append(('robust',it,s)); 
    # worst-case expectation LP over vertex weights
    verts=[np.array(list(itertools.product(*zip(lo[s],hi[s])))) for s in range(S)]
    idx=[]; 
    for s in range(S):
        for v in verts[s]: idx.append((s,v))
    nW=len(idx); nv = nW + S   # weights then p
    fvals = np.array([cy*ysv[s] + c0@xs + max((R@xs + r0)@v + a@xs + a0 for (R,r0,a,a0) in pieces) for (s,v) in idx])
    cvec = np.concatenate([-fvals, np.zeros(S)])
    Aeq=[]; beq=[]
    for s in range(S):
        r=np.zeros(nv); 
        for k,(ss,v) in enumerate(idx):
            if ss==s: r[k]=1
        r[nW+s]=-1; Aeq.append(r); beq.append(0)
    r=np.zeros(nv); r[nW:]=1; Aeq.append(r); beq.append(1)
    Aub=[]; bub=[]
    for (ev,el,eh) in exps:
        for j in range(nz):
            r=np.zeros(nv)
            for k,(ss,v) in enumerate(idx):
                if ss in ev: r[k]=v[j]
            for s in ev: r[nW+s] -= eh[j]
            Aub.append(r); bub.append(0)
            r=np.zeros(nv)
            for k,(ss,v) in enumerate(idx):
                if ss in ev: r[k]=-v[j]
            for s in ev: r[nW+s] += el[j]
            Aub.append(r); bub.append(0)
    bounds=[(0,None)]*nW + [(plo[s],phi[s]) for s in range(S)]
    res = opt.linprog(cvec, A_ub=np.array(Aub) if Aub else None, b_ub=np.array(bub) if bub else None, A_eq=np.array(Aeq), b_eq=np.array(beq), bounds=bounds)
    if res.status!=0: continue
    wc = -res.fun
    tol = 1e-5*(1+abs(val))
    if wc > val + tol: stats['unsafe']+=1; bad.append(('unsafe',it,val,wc,S,nz,len(exps),npieces))
    elif wc < val - 1e-4*(1+abs(val)): stats['gap']+=1; bad.append(('gap-at-solution',it,val,wc))
    else: stats['exact']+=1
P(stats)
for b in bad[:12]: P(b)
