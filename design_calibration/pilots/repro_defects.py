"""Hand reproductions of the defects F1-F15 listed in DESIGN.md section 9.

Run:  /venv/bin/python design_calibration/pilots/repro_defects.py 2>/dev/null | grep '^##'
Each line prints  ## Fn  observed ...  expected ...
This is a record of what was observed while writing the design, not a check: the
machinery described in DESIGN.md must reproduce each of these with its own replay.
"""
import warnings; warnings.filterwarnings('ignore')
import os, sys
import numpy as np
import rsome as rso
from rsome import ro, dro, E
from rsome import ort_solver as ort, eco_solver as eco, lpg_solver as lpg


def P(*a):
    print('##', *a); sys.stdout.flush()


def quiet(f, *a, **k):
    """silence solver output written from C"""
    fd = os.dup(1); dn = os.open(os.devnull, os.O_WRONLY); os.dup2(dn, 1)
    try:
        return f(*a, **k)
    finally:
        os.dup2(fd, 1); os.close(dn); os.close(fd)


def f1():
    def build():
        m = ro.Model(); x = m.dvar(2, 'B'); m.max(x.sum()); m.st(x[0] <= 0); return m
    m = build(); quiet(m.solve, None, display=False); a = m.get()
    m2 = build(); quiet(m2.solve, ort, display=False); b = m2.get()
    quiet(m.solve, ort, display=False); c = m.get()
    P('F1 default', a, 'ortools', b, 'ortools after default on same model', c, 'expected 1.0 everywhere')


def f2():
    m = ro.Model(); x = m.dvar(2)
    m.min(x[0] + 2*x[1]); m.st(x[0] >= 5, x[0] <= 5, x[1] >= 1)
    quiet(m.solve, None, display=False)
    d = quiet(lpg.solve, m.do_math(primal=False), display=False)
    P('F2 primal', m.get(), 'dual objval', d.objval, 'expected -7.0')


def f3():
    m = ro.Model(); x = m.dvar(); y = m.dvar()
    m.min(y); m.st(y >= rso.exp(x), x >= 1)
    quiet(m.soc_solve, eco, display=False); n1 = len(m.do_math().qmat)
    quiet(m.soc_solve, eco, display=False); n2 = len(m.do_math().qmat)
    try:
        quiet(m.solve, eco, display=False); r = m.get()
    except Exception as e:
        r = type(e).__name__
    P('F3 cached qmat after soc_solve x1/x2', n1, n2, 'solve afterwards ->', r, 'expected 0 0 2.718')


def f4():
    m = ro.Model(); x = m.dvar(); z = m.rvar()
    c1 = (x >= z).forall(z <= 1, z >= -1)
    c2 = (x >= 2*z).forall()
    P('F4 empty set reuses previous support object:', c2.support is c1.support, 'expected False')


def f5():
    m = ro.Model(); x = m.dvar()
    m.min(rso.power(x, 3) + 1); m.st(x >= 2)
    quiet(m.solve, eco, display=False)
    P('F5 power: objective', round(m.get(), 4), 'expr()', round(float((rso.power(x, 3) + 1)()), 4), 'expected equal')
    m = ro.Model(); x = m.dvar(3)
    m.max(rso.entropy(x)); m.st(x.sum() == 1)
    quiet(m.solve, eco, display=False)
    P('F5 entropy: objective', round(m.get(), 4), 'expr()', round(float(rso.entropy(x)()), 4), 'expected equal')


def f6():
    m = ro.Model(); x = m.dvar(3)
    m.min(rso.pnorm(x, 2.5)); m.st(x >= 1)
    f = m.do_math()
    P('F6 pnorm(exc) objective compiled to rows/xmat/qmat', f.linear.shape, len(f.xmat), len(f.qmat),
      'expected exp cones present')


def f7():
    m = ro.Model(); x = m.dvar((2, 3))
    P('F7 diag(k=1) of 2x3: rsome shape', x.to_affine().diag(1).shape, 'numpy shape', np.diag(np.zeros((2, 3)), 1).shape)


def f8():
    m = dro.Model(2); z = m.rvar(); x = m.dvar()
    fs = m.ambiguity(); fs.suppset(z >= -2, z <= 2)
    fs.exptset(rso.exp(E(z)) <= 1.0, E(z) >= -1); fs.probset(m.p == 0.5)
    m.minsup(E(x + z), fs); m.st(x >= 0)
    quiet(m.solve, eco, display=False)
    P('F8 sup E[z] with exp(E z) <= 1:', round(m.get(), 4), 'expected 0.0')


def f9():
    m = ro.Model(); x = m.dvar(); y = m.dvar()
    try:
        m.min(y); m.st(0 * rso.exp(x) <= y, x >= 0, x <= 1); m.do_math(); r = 'ok'
    except Exception as e:
        r = type(e).__name__
    P('F9 0*exp(x) <= y ->', r, 'expected ok (y >= 0)')


def f10():
    def build(order):
        m = dro.Model(1); x = m.dvar(); z = m.rvar()
        fs = m.ambiguity(); fs.suppset(z >= -1, z <= 1); fs.exptset(E(z) == 0)
        e = x - z
        if order == 'before':
            c = (e <= 0.5); obj = E(rso.maxof(e, 0*x))
        else:
            obj = E(rso.maxof(e, 0*x)); c = (e <= 0.5)
        m.max(x); m.st(c.forall(fs)); m.st((obj <= 10).forall(fs))
        quiet(m.solve, None, display=False)
        return round(float(m.get()), 4)
    P('F10 constraint written before/after E(maxof(e,..)):', build('before'), build('after'), 'expected equal (-0.5)')


def f11():
    m = ro.Model(); x = m.dvar(2); z = m.rvar(2)
    m.minmax((x*z).sum() - x[0], rso.norm(z, 2) <= 2); m.st(x >= 1, x <= 3)
    p = quiet(eco.solve, m.do_math(), display=False); d = quiet(eco.solve, m.do_math(primal=False), display=False)
    P('F11 primal', round(p.objval, 4), 'dual', round(d.objval, 4), 'expected negatives of each other')


def f12_13():
    d = [1., 5., 2., 7.]
    m = dro.Model(4); z = m.rvar(); x = m.dvar()
    fs = m.ambiguity()
    for s in range(4):
        fs[s].suppset(z == d[s])
    fs.probset(m.p == 0.25)
    x.adapt([3]); x.adapt([1, 2])
    m.minsup(E(x), fs); m.st(x >= z)
    quiet(m.solve, None, display=False)
    P('F12 x.get()', [float(v) for v in x.get().values], 'x()', [float(v) for v in x().values], 'expected [1,5,5,7] twice')
    m = dro.Model(3); z = m.rvar(); x = m.dvar()
    fs = m.ambiguity()
    for s, dv in enumerate([1., 5., 2.]):
        fs[s].suppset(z == dv)
    fs.probset(m.p == 1/3)
    m.minsup(E(x), fs); m.st(x >= z)
    quiet(m.solve, None, display=False); a = float(m.get())
    try:
        x.adapt(1); quiet(m.solve, None, display=False); b = float(m.get()); x.get(); r = 'ok'
    except Exception as e:
        r = type(e).__name__
    P('F13 optimum before/after late adapt', a, b, 'then x.get() ->', r, 'expected an error at adapt() or 3.0')


def f14():
    rng = np.random.default_rng(0)
    m = ro.Model(); x = m.dvar((2, 1, 2, 3)); B = rng.integers(-3, 4, size=(4, 3, 2)).astype(float)
    xv = rng.integers(-3, 4, size=50).astype(float)
    a = (x @ B).to_affine() if hasattr(x @ B, 'to_affine') else x @ B
    got = (a.linear @ xv[:a.linear.shape[1]]).reshape(a.shape) + a.const
    X = xv[1:13].reshape((2, 1, 2, 3))
    P('F14 (2,1,2,3)@(4,3,2) shape', got.shape, 'values equal numpy:', bool(np.allclose(got, X @ B)), 'expected True')


def f15():
    m = ro.Model(); z = m.rvar(2); y = m.ldr(); x = m.dvar()
    m.minmax(x + y, z >= 0, z <= 1); m.st(y >= z.sum() - x, x >= 0)
    quiet(m.solve, None, display=False)
    try:
        r = y.get(z)
    except Exception as e:
        r = type(e).__name__
    P('F15 ldr.get(z) without adapt ->', r, 'expected [nan nan]')


if __name__ == '__main__':
    for f in (f1, f2, f3, f4, f5, f6, f7, f8, f9, f10, f11, f12_13, f14, f15):
        try:
            f()
        except Exception as e:
            P(f.__name__, 'REPRO SCRIPT ERROR', type(e).__name__, str(e)[:100])
