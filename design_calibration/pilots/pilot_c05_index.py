"""C05 pilot: indexing, sum, T, reshape, diag family vs NumPy
Pilot run while writing DESIGN.md; not a check. Run with /venv/bin/python and filter lines starting with ##.
"""
import warnings; warnings.filterwarnings('ignore')
import numpy as np, itertools, random
from rsome import ro
import rsome as rso
rng = np.random.default_rng(1)
def ev(aff, xv):
    aff = aff.to_affine() if hasattr(aff,'to_affine') else aff
    lin = aff.linear; n = lin.shape[1]
    return (lin @ xv[:n]).reshape(aff.shape) + aff.const
fails={}
def rec(k,m): fails.setdefault(k,[]).append(m)
shapes = [(3,), (2,3), (3,1), (2,1,3), (2,3,4), (2,2,3,2)]
idxs = [0, -1, slice(None), slice(1,None), slice(None,None,-1), slice(0,None,2), [0,1], [1,0,1], Ellipsis, None,
        (0,1),(slice(None),0),(Ellipsis,0),(None,0),([0,1],[1,0]),(slice(None),[0,1]), (0,slice(None),1), (Ellipsis,None), np.array([True,False,True]), (slice(None), np.array([True,False,True])),
        np.array([[0,1],[1,0]]), (1,Ellipsis,slice(None,None,2))]
cnt=0
for sa in shapes:
    m = ro.Model(); x = m.dvar(sa); y = m.dvar(sa)
    xv = rng.integers(-3,4,size=300).astype(float)
    for mk, desc in [(lambda: x, 'var'), (lambda: 2*x + y + 1, 'aff')]:
        e = mk(); X = ev(e, xv)
        for ix in idxs:
            cnt+=1
            try: want = X[ix]; werr=None
            except Exception as ex: werr=ex
            try: got = e[ix]; gerr=None
            except Exception as ex: gerr=ex
            if werr is not None:
                if gerr is None: rec('idx:noraise',(desc,sa,str(ix)))
                continue
            if gerr is not None: rec('idx:raise',(desc,sa,str(ix),str(gerr)[:50])); continue
            try: g = ev(got, xv)
            except Exception as ex: rec('idx:evalerr',(desc,sa,str(ix),str(ex)[:50])); continue
            if np.shape(g)!=np.shape(want): rec('idx:shape',(desc,sa,str(ix),np.shape(g),np.shape(want)))
            elif not np.allclose(g,want): rec('idx:value',(desc,sa,str(ix)))
        for ax in [None,0,-1,1,(0,1)]:
            cnt+=1
            try: want = X.sum(axis=ax); werr=None
            except Exception as ex: werr=ex
            try: got = e.sum(axis=ax); gerr=None
            except Exception as ex: gerr=ex
            if werr is not None:
                if gerr is None: rec('sum:noraise',(desc,sa,ax))
                continue
            if gerr is not None: rec('sum:raise',(desc,sa,ax,str(gerr)[:50])); continue
            g = ev(got,xv)
            if np.shape(g)!=np.shape(want): rec('sum:shape',(desc,sa,ax,np.shape(g),np.shape(want)))
            elif not np.allclose(g,want): rec('sum:value',(desc,sa,ax))
        cnt+=1
        g = ev(e.T, xv)
        if g.shape!=X.T.shape or not np.allclose(g,X.T): rec('T',(desc,sa))
        for rs in [(-1,), (X.size,), (1,-1), (X.size,1)]:
            try:
                g = ev(e.reshape(rs), xv); w = X.reshape(rs)
                if g.shape!=w.shape or not np.allclose(g,w): rec('reshape',(desc,sa,rs))
            except Exception as ex: rec('reshape:raise',(desc,sa,rs,str(ex)[:40]))
        if len(sa)==2:
            for k in [-1,0,1]:
                for nm,f,wf in [('tril',lambda a:a.tril(k),lambda A:np.tril(A,k)),('triu',lambda a:a.triu(k),lambda A:np.triu(A,k)),('diag',lambda a:a.diag(k),lambda A:np.diag(A,k)),('diagfill',lambda a:a.diag(k,fill=True),lambda A:np.diag(np.diag(A,k),k))]:
                    try:
                        g = ev(f(e.to_affine()),xv); w = wf(X)
                        if g.shape!=w.shape or not np.allclose(g,w): rec(nm,(desc,sa,k, g.shape, w.shape))
                    except Exception as ex: rec(nm+':raise',(desc,sa,k,str(ex)[:50]))
            try:
                g = ev(e.to_affine().trace(), xv); w=np.trace(X)
                if not np.allclose(g,w): rec('trace',(desc,sa))
            except Exception as ex: rec('trace:raise',(desc,sa,str(ex)[:50]))
print('cases',cnt)
for k,v in fails.items(): print(k,len(v),v[:8])
