"""End-to-end pilot of the correspondence tie for one component: lp-layer do_math(primal=False).
Python builds random LPs through ro.Model with every bound pattern, exports the primal standard
form as exact rationals, asks the Lean model (LpDualModel.lean + driver) for the dual, and compares
with what rsome's own do_math(primal=False) returns.  (args: seed count leanproject_dir)"""
import warnings; warnings.filterwarnings('ignore')
import sys, json, subprocess, numpy as np
from fractions import Fraction
from rsome import ro
rng = np.random.default_rng(int(sys.argv[1]) if len(sys.argv)>1 else 0)
N = int(sys.argv[2]) if len(sys.argv)>2 else 100
leandir = sys.argv[3] if len(sys.argv)>3 else '/tmp/scratch/lt'
def fr(v): 
    f = Fraction(float(v)); return str(f.numerator) if f.denominator==1 else f"{f.numerator}/{f.denominator}"
def optfr(v): return None if np.isinf(v) else fr(v)
def export(f):
    A = f.linear.toarray()
    return {"nr":int(A.shape[0]),"nc":int(A.shape[1]),"a":[[fr(v) for v in row] for row in A],"b":[fr(v) for v in f.const],
            "eq":[int(s) for s in f.sense],"ub":[optfr(v) for v in f.ub],"lb":[optfr(v) for v in f.lb],"c":[fr(v) for v in np.asarray(f.obj).reshape(-1)]}
vals = [-2.,-1.,-0.5,0.,0.5,1.,3.]
cases=[]; tags=[]
for it in range(N):
    n = int(rng.integers(1,5)); m = ro.Model(); x = m.dvar(n)
    m.min((rng.choice(vals,n))@x) if rng.random()<0.7 else m.max((rng.choice(vals,n))@x)
    tag=set()
    for j in range(n):
        r = rng.random()
        if r<0.12: m.st(x[j] >= 0); tag.add('lb0')
        elif r<0.24: m.st(x[j] <= 0); tag.add('ub0')
        elif r<0.36: v=float(rng.choice([-2.,1.5,3.])); m.st(x[j] >= v); tag.add('lbfin')
        elif r<0.48: v=float(rng.choice([-2.,1.5,3.])); m.st(x[j] <= v); tag.add('ubfin')
        elif r<0.60: lo=float(rng.choice([-2.,0.,1.])); m.st(x[j] >= lo, x[j] <= lo+float(rng.choice([1.,2.]))); tag.add('both')
        elif r<0.72: v=float(rng.choice([-1.5,0.,2.])); m.st(x[j] >= v, x[j] <= v); tag.add('fixed0' if v==0 else 'fixed')
        else: tag.add('free')
    for k in range(int(rng.integers(1,4))):
        a = rng.choice(vals,n); b=float(rng.choice(vals))
        r = rng.random()
        m.st(a@x <= b) if r<0.5 else (m.st(a@x >= b) if r<0.8 else m.st(a@x == b))
    p = m.do_math(); d = m.do_math(primal=False)
    cases.append((export(p), export(d))); tags.append(tag)
inp = "\n".join(json.dumps(c[0]) for c in cases)+"\n"
out = subprocess.run(['lake','env','lean','--run','DualDriver.lean'],cwd=leandir,input=inp,capture_output=True,text=True)
lines=[l for l in out.stdout.splitlines() if l.startswith('{')]
assert len(lines)==len(cases), (len(lines), out.stderr[:300])
agree=0; dis=[]
for (p,d),l,t in zip(cases,lines,tags):
    mdl=json.loads(l)
    if all(mdl[k]==d[k] for k in ('nr','nc','a','b','eq','ub','lb','c')): agree+=1
    else: dis.append((sorted(t),[k for k in ('nr','nc','a','b','eq','ub','lb','c') if mdl[k]!=d[k]], p, d, mdl))
print('## cases',len(cases),'agree',agree,'disagree',len(dis))
from collections import Counter
print('## disagreements by pattern containing fixed(non-zero):', sum(1 for t,_,_,_,_ in dis if 'fixed' in t), 'others:', sum(1 for t,_,_,_,_ in dis if 'fixed' not in t))
print('## tag histogram', Counter(x for t in tags for x in t).most_common())
for t,keys,p,d,mdl in dis[:2]:
    print('## sample disagreement', t, keys, 'code b:', d['c'], 'model b:', mdl['c'])
