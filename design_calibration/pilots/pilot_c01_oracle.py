"""C01 search-oracle pilot: random ro models, independent worst-case realisation via own ECOS formulation (args: seed count)
Pilot run while writing DESIGN.md; not a check. Run with /venv/bin/python and filter lines starting with ##.
"""
import warnings; warnings.filterwarnings('ignore')
import numpy as np, os, sys, ecos, scipy.sparse as sp
import rsome as rso
from rsome import ro, eco_solver as eco
def P(*a): print("##", *a); sys.stdout.flush()
def quiet(f,*a,**k):
    fd = os.dup(1); dn = os.open(os.devnull, os.O_WRONLY); os.dup2(dn, 1)
    try: return f(*a,**k)
    finally: os.dup2(fd, 1); os.close(dn); os.close(fd)
rng = np.random.default_rng(int(sys.argv[1]) if len(sys.argv)>1 else 0)
def rint(lo,hi,size=None): return rng.integers(lo,hi+1,size=size).astype(float)

def gen_set(nz, wide=0.0):
    lo = rint(-3,0,nz)-wide; hi = lo + rint(1,4,nz)+2*wide
    # bound patterns: sometimes make lo=0 or hi=0
    for j in range(nz):
        r = rng.random()
        if r<0.15: lo[j]=0.0; hi[j]=rint(1,3)
        elif r<0.3: hi[j]=0.0; lo[j]=-rint(1,3)
    mid=(lo+hi)/2
    S = {'lo':lo,'hi':hi,'ineq':[],'eq':[],'norm':None}
    if rng.random()<0.5:
        a = rint(-2,2,nz)
        if np.any(a): S['ineq'].append((a, float(a@mid+1)))
    if rng.random()<0.3 and nz>1:
        a = rint(-2,2,nz)
        if np.any(a): S['eq'].append((a, float(a@mid)))
    r = rng.random()
    if r<0.25: S['norm']=(1, 2.0, mid, 3.0)
    elif r<0.5: S['norm']=(2, 0.5, mid, 1.5)
    elif r<0.65: S['norm']=('inf', 1.0, mid, 2.0)
    return S
def rs_set(z, S):
    cs = [z >= S['lo'], z <= S['hi']]
    for a,b in S['ineq']: cs.append(a@z <= b)
    for a,b in S['eq']: cs.append(a@z == b)
    if S['norm']:
        p,m,c,rho = S['norm']; cs.append(rso.norm(m*(z-c), p) <= rho)
    return cs
def maxlin(g, S):
    nz = len(g); n = nz
    G=[]; h=[]
    for j in range(nz):
        e=np.zeros(nz); e[j]=1; G.append(e); h.append(S['hi'][j]); G.append(-e); h.append(-S['lo'][j])
    for a,b in S['ineq']: G.append(a); h.append(b)
    Gq=[]; hq=[]; qd=[]
    extra=0
    if S['norm']:
        p,m,c,rho = S['norm']
        if p==2:
            Gq.append(np.zeros(nz)); hq.append(rho)
            for j in range(nz):
                e=np.zeros(nz); e[j]=-m; Gq.append(e); hq.append(-m*c[j])
            qd=[nz+1]
        elif p=='inf':
            for j in range(nz):
                e=np.zeros(nz); e[j]=m; G.append(e); h.append(rho+m*c[j]); G.append(-e); h.append(rho-m*c[j])
        else:
            extra=nz
    n = nz+extra
    rows=[np.concatenate([r,np.zeros(extra)]) for r in G]; hh=list(h)
    if extra:
        p,m,c,rho = S['norm']
        for j in range(nz):
            e=np.zeros(n); e[j]=m; e[nz+j]=-1; rows.append(e); hh.append(m*c[j])
            e=np.zeros(n); e[j]=-m; e[nz+j]=-1; rows.append(e); hh.append(-m*c[j])
        e=np.zeros(n); e[nz:]=1; rows.append(e); hh.append(rho)
    nl=len(rows)
    for r,hv in zip(Gq,hq): rows.append(np.concatenate([r,np.zeros(extra)])); hh.append(hv)
    Gm = sp.csc_matrix(np.array(rows)); hv=np.array(hh,dtype=float)
    A=b=None
    if S['eq']:
        A = sp.csc_matrix(np.array([np.concatenate([a,np.zeros(extra)]) for a,_ in S['eq']])); b=np.array([bb for _,bb in S['eq']],dtype=float)
    c = -np.concatenate([g,np.zeros(extra)])
    try: sol = quiet(ecos.solve, c, Gm, hv, {'l':nl,'q':qd,'e':0}, A, b, verbose=False)
    except Exception: return None, None
    if sol['info']['exitFlag'] not in (0,10): return None, None
    return -sol['info']['pcost'], sol['x'][:nz]

viol=[]; solved=0; fail=0; empt=0; checked=0; kinds={}
for it in range(int(sys.argv[2]) if len(sys.argv)>2 else 120):
    nd = int(rng.integers(1,4)); nz = int(rng.integers(1,4))
    m = ro.Model(); x = m.dvar(nd); z = m.rvar(nz)
    use_ldr = rng.random()<0.5
    mask=np.zeros(nz,bool)
    if use_ldr:
        y = m.ldr(); mask = rng.random(nz)<0.6
        for j in range(nz):
            if mask[j]: y.adapt(z[j])
    S0 = gen_set(nz)
    if maxlin(np.zeros(nz), S0)[0] is None: empt+=1; continue
    cons=[]
    for c in range(int(rng.integers(1,4))):
        R = rint(-2,2,(nz,nd)); r0 = rint(-2,2,nz); a = rint(-2,2,nd); a0 = rint(-8,-1); coef = rint(-2,2) if use_ldr else 0.0
        sense = rng.choice(['le','ge','eq'], p=[0.6,0.25,0.15])
        if sense=='eq':
            if not use_ldr: sense='le'
            else: R=R*0; coef = 1.0   # y = -(r0·z + a·x + a0) : equality defines the ldr; only if mask covers r0
        own = gen_set(nz, wide=0.5) if rng.random()<0.35 else None
        if own is not None and maxlin(np.zeros(nz), own)[0] is None: own=None
        if sense=='eq': r0 = r0*mask
        expr = (R@x + r0)@z + a@x + a0 + (coef*y if use_ldr else 0)
        con = (expr <= 0) if sense=='le' else ((-expr >= 0) if sense=='ge' else (expr == 0))
        if own is not None: con = con.forall(rs_set(z, own))
        m.st(con); cons.append((R,r0,a,a0,coef,sense,own))
    m.st(x >= -5, x <= 5)
    c0 = rint(-2,2,nd); q = rint(-1,1,nz); cy = rint(0,1) if use_ldr else 0.0
    ismax = rng.random()<0.3
    objexpr = c0@x + q@z + (cy*y if use_ldr else 0)
    if ismax: m.maxmin(objexpr, rs_set(z,S0))
    else: m.minmax(objexpr, rs_set(z,S0))
    try:
        quiet(m.solve, eco, display=False); obj = m.get()
    except Exception as e:
        fail+=1; continue
    solved+=1
    xs = x.get()
    if use_ldr:
        y0 = float(y.get()); yz = np.nan_to_num(np.array(y.get(z),dtype=float), nan=0.0).reshape(nz) if mask.any() else np.zeros(nz)
        if np.any(np.abs(yz[~mask])>1e-12): viol.append(('ldr-dependence',it))
    else: y0=0.0; yz=np.zeros(nz)
    for (R,r0,a,a0,coef,sense,own) in cons:
        S = own if own is not None else S0
        g = R@xs + r0 + coef*yz; const = a@xs + a0 + coef*y0
        for sgn in ([1] if sense in('le','ge') else [1,-1]):
            w,_ = maxlin(sgn*g, S); checked+=1
            if w is None: continue
            val = w + sgn*const
            if val > 1e-5*(1+abs(const)+np.abs(g).sum()*5): viol.append(('constr',it,sense,own is not None,S['norm'] and S['norm'][0],float(val)))
    g = q + cy*yz; const = c0@xs + cy*y0
    if ismax:
        w,_ = maxlin(-g, S0); val = (-w+const)   # min over z
        if w is not None and obj > val + 1e-5*(1+abs(val)): viol.append(('obj-max',it,obj,val))
        if w is not None: gap = val-obj
    else:
        w,_ = maxlin(g, S0); val = w+const
        if w is not None and obj < val - 1e-5*(1+abs(val)): viol.append(('obj-min',it,obj,val))
    k=(S0['norm'] and S0['norm'][0], bool(S0['ineq']), bool(S0['eq']), use_ldr)
    kinds[k]=kinds.get(k,0)+1
P('solved',solved,'infeasible/fail',fail,'emptyset',empt,'rows checked',checked,'violations',len(viol))
for v in viol[:10]: P(v)
P(sorted(kinds.items(), key=lambda kv:-kv[1])[:8])
