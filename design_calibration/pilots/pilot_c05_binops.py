"""C05 pilot: affine binary operators vs NumPy over shape pairs
Pilot run while writing DESIGN.md; not a check. Run with /venv/bin/python and filter lines starting with ##.
"""
import warnings; warnings.filterwarnings('ignore')
import numpy as np, itertools, random
from rsome import ro
import rsome as rso
rng = np.random.default_rng(0)
def ev(aff, xv):
    aff = aff.to_affine() if hasattr(aff,'to_affine') else aff
    lin = aff.linear
    n = lin.shape[1]
    return (lin @ xv[:n]).reshape(aff.shape) + aff.const
fails = {}
def rec(k, msg):
    fails.setdefault(k, []).append(msg)
shapes = [(), (1,), (3,), (2,3), (3,2), (1,3), (3,1), (2,1,3), (2,3,2), (2,2,3,2), (1,2,3), (4,2,3)]
cnt=0
for sa in shapes:
  for sb in shapes:
    m = ro.Model(); x = m.dvar(sa if sa else ()); 
    xv = rng.integers(-3,4,size=200).astype(float)
    X = ev(x, xv) if sa!=() else ev(x.to_affine(), xv)
    B = rng.integers(-3,4,size=sb).astype(float) if sb!=() else float(rng.integers(-3,4))
    for name, f in [('mul', lambda a,b: a*b), ('rmul', lambda a,b: b*a), ('add', lambda a,b: a+b), ('radd', lambda a,b: b+a),('sub', lambda a,b: a-b), ('rsub', lambda a,b: b-a),
                    ('matmul', lambda a,b: a@b), ('rmatmul', lambda a,b: b@a)]:
        cnt+=1
        try: want = f(X, B); werr=None
        except Exception as e: want=None; werr=e
        try: got = f(x, B); gerr=None
        except Exception as e: got=None; gerr=e
        if werr is not None:
            if gerr is None: rec(name+':noraise', (sa,sb, got.shape))
            continue
        if gerr is not None:
            rec(name+':raise', (sa,sb,type(gerr).__name__, str(gerr)[:60])); continue
        try:
            g = ev(got, xv)
        except Exception as e:
            rec(name+':evalerr', (sa,sb,str(e)[:60])); continue
        if np.shape(g)!=np.shape(want): rec(name+':shape', (sa,sb,np.shape(g),np.shape(want)))
        elif not np.allclose(g,want): rec(name+':value', (sa,sb))
print('cases',cnt)
for k,v in fails.items(): print(k, len(v), v[:6])
