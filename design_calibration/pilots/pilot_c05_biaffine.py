"""C05 pilot: decision x random bi-affine operators vs NumPy
Pilot run while writing DESIGN.md; not a check. Run with /venv/bin/python and filter lines starting with ##.
"""
import warnings; warnings.filterwarnings('ignore')
import numpy as np
from rsome import ro
rng = np.random.default_rng(0)
def P(*a): print("##", *a)
def evA(aff, xv):
    lin = aff.linear; n = lin.shape[1]
    return (lin @ xv[:n]).reshape(aff.shape) + aff.const
def evR(ro_, xv, zv):
    ra = evA(ro_.raffine, xv)      # (size, nrand)
    nr = ra.shape[1]
    return (ra @ zv[:nr]).reshape(ro_.shape) + evA(ro_.affine, xv)
fails = {}
shapes = [(), (3,), (2,3), (3,2), (1,3), (3,1), (2,1,3), (2,3,2)]
ops = [('mul', lambda a,b: a*b), ('rmul', lambda a,b: b*a), ('matmul', lambda a,b: a@b), ('rmatmul', lambda a,b: b@a), ('mix', lambda a,b: (2*a+1)*b - a), ('mix2', lambda a,b: ((a*b)+b).sum(axis=0) if np.ndim(a*b)>0 else a*b+b ), ('idx', lambda a,b: (a*b)[..., 0] if np.ndim(a*b)>0 else a*b), ('T', lambda a,b: (a*b).T)]
cnt=0
for sa in shapes:
  for sb in shapes:
    m = ro.Model(); x = m.dvar(sa); z = m.rvar(sb)
    xv = rng.integers(-3,4,size=100).astype(float); zv = rng.integers(-3,4,size=100).astype(float)
    X = xv[1:1+int(np.prod(sa))].reshape(sa); Z = zv[:int(np.prod(sb))].reshape(sb)
    for name,f in ops:
        cnt+=1
        try: want = f(X,Z); werr=None
        except Exception as e: werr=e
        try: got = f(x,z); gerr=None
        except Exception as e: gerr=e
        if werr is not None:
            if gerr is None: fails.setdefault(name+':noraise',[]).append((sa,sb))
            continue
        if gerr is not None: fails.setdefault(name+':raise',[]).append((sa,sb,type(gerr).__name__,str(gerr)[:40])); continue
        try: g = evR(got, xv, zv)
        except Exception as e: fails.setdefault(name+':evalerr',[]).append((sa,sb,str(e)[:50])); continue
        if np.shape(g)!=np.shape(want): fails.setdefault(name+':shape',[]).append((sa,sb,np.shape(g),np.shape(want)))
        elif not np.allclose(g,want): fails.setdefault(name+':value',[]).append((sa,sb))
P('cases',cnt)
for k,v in fails.items(): P(k,len(v),v[:6])
